"""C15 — tables of contents mirror the document's headings."""
import html as htmlmod
import itertools
import json
import os
import re

from common import run_model

ID = "C15"
LEVEL = "proof"
GEN = ["TocGen"]
COQ = ["Props/C15.vo"]
EXPLANATION = (
    "Theorems in coq/Props/C15.v: for EVERY sequence of heading levels (any length, any jumps) the chunk sequence that "
    "render_toc_ul concatenates is read by a tag stack machine (ul/li open/close, anchor) as a well-nested list forest "
    "with all elements closed, every entry's anchor exactly once in input order, and entry i directly under the closest "
    "preceding entry of strictly smaller level (induction over the level stack with a chain-of-minima invariant). The id "
    "STRINGS toc_N are pairwise different too (C15_id_strings_unique: str(int) is read back, Proofs/DecimalProofs.v). The "
    "literal pieces are regenerated from the source and tied by lexing them inside Coq (C15_tie_pieces); the control "
    "skeleton of render_toc_ul, add_toc_hook, TableOfContents.toc_hook is compared with a committed skeleton by the "
    "translator. Hook/directive: ids are prefix+1..k in document order over the eligible top-level headings (hence "
    "unique) and a section lists exactly the items of its range, in order.")
ASSUMPTIONS = [
    "the model of render_toc_ul mirrors the Python while/else loop by hand; tied by the skeleton comparison and by the "
    "correspondence run (all level sequences up to length 5 quick / 7 thorough, byte-for-byte)",
    "str(int) being injective is proved for the MODEL of str(int) (PyStr.str_of_Z, Proofs/DecimalProofs.v); that CPython's str(int) is that function is validated by the correspondence run (ids compared byte for byte), not proved",
    "entry text (striptags of the rendered heading) is checked on the implementation by the oracle, not proved"]
TRUSTED = ["tools/skeletons/*.txt (committed control skeletons)"]


def _spec_parents(levels):
    out = []
    for i, l in enumerate(levels):
        p = None
        for j in range(i - 1, -1, -1):
            if levels[j] < l:
                p = j
                break
        out.append(p)
    return out


TAG = re.compile(r"<(/?)(ul|li|a)((?: [^<>]*)?)>|([^<]+)|(<)")


def read_toc(htmltext):
    """strict reader: returns list of (href, text, parent_index) or raises ValueError"""
    stack = []   # entries: ['ul'] or ['li', idx]
    items = []
    pos = 0
    cur_a = None
    for m in TAG.finditer(htmltext):
        if m.start() != pos:
            raise ValueError("gap at %d" % pos)
        pos = m.end()
        close, tag, attrs, text, lone = m.groups()
        if lone:
            raise ValueError("stray <")
        if text is not None:
            if cur_a is not None:
                cur_a["text"] += text
            elif text.strip():
                raise ValueError("text outside anchor: %r" % text)
            continue
        if tag == "ul":
            if not close:
                if stack and (stack[-1][0] != "li" or stack[-1][1] is None):
                    raise ValueError("ul not inside li-with-anchor")
                stack.append(["ul"])
            else:
                if not stack or stack[-1][0] != "ul":
                    raise ValueError("unbalanced </ul>")
                stack.pop()
        elif tag == "li":
            if not close:
                if not stack or stack[-1][0] != "ul":
                    raise ValueError("li outside ul")
                stack.append(["li", None])
            else:
                if not stack or stack[-1][0] != "li" or stack[-1][1] is None or cur_a is not None:
                    raise ValueError("unbalanced </li>")
                stack.pop()
        else:
            if not close:
                if not stack or stack[-1][0] != "li" or stack[-1][1] is not None or cur_a is not None:
                    raise ValueError("anchor misplaced")
                hm = re.fullmatch(r' href="#([^"]*)"', attrs or "")
                if not hm:
                    raise ValueError("anchor attrs %r" % attrs)
                parent = None
                for fr in reversed(stack[:-1]):
                    if fr[0] == "li":
                        parent = fr[1]
                        break
                cur_a = {"href": hm.group(1), "text": "", "parent": parent}
                stack[-1][1] = len(items)
            else:
                if cur_a is None:
                    raise ValueError("</a> without <a>")
                items.append(cur_a)
                cur_a = None
    if pos != len(htmltext) or stack or cur_a is not None:
        raise ValueError("unclosed elements: %r" % stack)
    return items


def _level_seqs(ctx, r):
    n = ctx.n(5, 7)
    seqs = [()]
    for k in range(1, n + 1):
        seqs += list(itertools.product(range(1, 7), repeat=k))
    for _ in range(ctx.n(300, 5000)):
        k = r.randint(n + 1, 60)
        mode = r.random()
        if mode < 0.5:
            seqs.append(tuple(r.randint(1, 6) for _ in range(k)))
        else:   # wide levels, as the API accepts any int
            seqs.append(tuple(r.choice([1, 2, 3, 5, 8, 13, 40, 100, 0]) for _ in range(k)))
    return seqs


def _toc_of(levels):
    return [(l, "i%d" % i, "T%d" % i) for i, l in enumerate(levels)]


def correspondence(ctx):
    m = ctx.mistune
    from mistune.toc import render_toc_ul, add_toc_hook
    r = ctx.rng("corr")
    seqs = _level_seqs(ctx, r)
    reqs = [("toc_render", [[l, i, t] for (l, i, t) in _toc_of(s)]) for s in seqs]
    # odd ids / texts
    odd = [[(1, 'a"b', "x<y"), (2, "", ""), (1, "é", "&amp;")]]
    reqs += [("toc_render", [[l, i, t] for (l, i, t) in o]) for o in odd]
    res = run_model(reqs)
    dis = []
    for s, mv in zip([_toc_of(s) for s in seqs] + odd, res):
        try:
            iv = render_toc_ul(list(s))
        except Exception as e:  # noqa
            iv = "EXC:" + type(e).__name__
        if iv != mv:
            dis.append({"input": [list(x) for x in s], "what": "render_toc_ul", "model": mv, "impl": iv})
            if len(dis) > 20:
                break
    # hook and directive
    docs = _docs(ctx, r, ctx.n(400, 6000))
    hreqs, hexp = [], []
    for d in docs:
        got = _run_hook(m, d)
        if got is None:
            continue
        toks, rng, items = got
        hreqs.append(("toc_hook_items", [list(rng) if rng else None, toks]))
        hexp.append((d, items))
    hres = run_model(hreqs)
    for (d, items), mv in zip(hexp, hres):
        if [list(x) for x in items] != mv:
            dis.append({"input": d, "what": "hook items", "model": mv, "impl": items})
            if len(dis) > 40:
                break
    return {"evaluations": len(reqs) + len(hreqs), "disagreements": dis, "level_sequences": len(seqs),
            "exhaustive_up_to_length": ctx.n(5, 7), "hook_documents": len(hreqs),
            "samples": [json.dumps(seqs[5000]), json.dumps(docs[0])]}


WORDS = ["alpha", "beta", "gamma", "x1", "Zed", "foo"]


def _heading_text(r):
    """returns (markdown, expected plain text)"""
    parts, plain = [], []
    for _ in range(r.randint(1, 4)):
        w = r.choice(WORDS)
        k = r.random()
        if k < 0.3:
            parts.append(w)
        elif k < 0.34:
            parts.append("_" + w + "_")
        elif k < 0.37:
            parts.append("__" + w + "__")
        elif k < 0.39:
            parts.append("\\*" + w + "\\_")
            plain.append("*" + w + "_")
            continue
        elif k < 0.44:
            # reference links (the definition is appended to every document)
            parts.append(r.choice(["[" + w + "][r]", "[" + w + "][R]", "[r]", "[" + w + "][]"]))
            plain.append("r" if parts[-1] == "[r]" else (w if not parts[-1].endswith("[]") else "[" + w + "][]"))
            continue
        elif k < 0.47:
            # an opener that finds no partner and falls back to text in the middle of a run of words (the text around it reaches
            # the text hook of a plugin in pieces)
            t = r.choice(["[" + w + "]", w + "[i]", "!" + w, w + "!", "[" + w, w + "]", "~" + w, "=" + w, "^" + w])
            parts.append(t)
            plain.append(t)
            continue
        elif k < 0.52 and parts:
            # inline HTML of every kind (never first, where it could open an HTML block): shown escaped when escaping is on,
            # removed from the entry text when it is off
            tag = r.choice(["<b>", "</b>", "<?php x ?>", "<!DOCTYPE html>", "<![CDATA[ y ]]>", "<!-- c -->", "<span class=\"k\">", "<em-x a=1>", "<!ELEMENT e>"])
            parts.append(tag)
            plain.append("\x01" + tag + "\x02")
            continue
        elif k < 0.57:
            parts.append("*" + w + "*")
        elif k < 0.65:
            parts.append("**" + w + "**")
        elif k < 0.75:
            parts.append("`" + w + "`")
        elif k < 0.85:
            parts.append("[" + w + "](/u)")
        elif k < 0.92:
            parts.append(w + " & " + w)
            plain.append(w + " & " + w)
            continue
        else:
            parts.append(w + " < " + w)
            plain.append(w + " < " + w)
            continue
        plain.append(w)
    return " ".join(parts), " ".join(plain)


def _docs(ctx, r, n):
    """documents as structured descriptions: list of blocks"""
    docs = []
    for _ in range(n):
        blocks = []
        for _ in range(r.randint(0, 9)):
            k = r.random()
            if k < 0.5:
                lvl = r.randint(1, 6)
                md, plain = _heading_text(r)
                style = "atx" if (lvl > 2 or r.random() < 0.6) else "setext"
                blocks.append({"k": "h", "level": lvl, "md": md, "plain": plain, "style": style})
            elif k < 0.65:
                blocks.append({"k": "p"})
            elif k < 0.8:
                blocks.append({"k": "nested", "level": r.randint(1, 6), "how": r.choice(["quote", "list"])})
            elif k < 0.9:
                a, b = sorted([r.randint(1, 6), r.randint(1, 6)])
                # the options a directive carries, in the order they are written: any subset, any order; an option that is
                # absent means the configured default (1..6); a flag option (collapse) may stand before or after the levels
                opts = r.choice([["min", "max"], ["min", "max"], ["max", "min"], ["min"], ["max"], [], ["collapse", "min", "max"],
                                 ["collapse", "min"], ["collapse", "max"], ["min", "collapse", "max"], ["min", "max", "collapse"], ["collapse"],
                                 ["max", "collapse", "min"]])
                blocks.append({"k": "toc", "min": a if "min" in opts else 1, "max": b if "max" in opts else 6, "opts": opts,
                               "wmin": a, "wmax": b, "title": r.choice(["", "", "Contents", "In this page"])})
            else:
                blocks.append({"k": "hr"})
        a, b = sorted([r.randint(1, 6), r.randint(1, 6)])
        docs.append({"blocks": blocks, "range": [a, b], "mode": r.choice(["hook", "hook", "directive", "directive"]),
                     "style": r.choice(["fenced", "rst"]), "escape": r.random() < 0.7,
                     "plugins": r.choice([None, None, ["abbr"], ["abbr"], ["abbr", "strikethrough", "mark", "superscript"], ["strikethrough", "footnotes", "abbr", "table"]]),
                     # through the shortcut mistune.markdown(text, plugins=[...]): the hook takes arguments, so it is wrapped in a function
                     # made for this call (and gone after it)
                     "shortcut": r.random() < 0.15})
    return docs


# abbreviations that the headings use (defined at the end of every document converted with the abbr plugin)
ABBRS = "*[alpha]: first letter\n*[Zed]: the last one\n*[x1]: x one\n"


def _md_of(doc):
    out = []
    for b in doc["blocks"]:
        if b["k"] == "h":
            if b["style"] == "atx":
                out.append("#" * b["level"] + " " + b["md"] + "\n")
            else:
                out.append(b["md"] + "\n" + ("===" if b["level"] == 1 else "---") + "\n")
        elif b["k"] == "p":
            out.append("para text\n")
        elif b["k"] == "nested":
            out.append(("> " if b["how"] == "quote" else "- ") + "#" * b["level"] + " nested heading\n")
        elif b["k"] == "toc":
            if doc["mode"] == "directive":
                lines = [{"min": ":min-level: %d" % b.get("wmin", b["min"]), "max": ":max-level: %d" % b.get("wmax", b["max"]), "collapse": ":collapse:"}[o]
                         for o in b.get("opts", ["min", "max"])]
                title = b.get("title", "")
                if doc.get("style") == "rst":
                    out.append(".. toc::" + (" " + title if title else "") + "\n" + "".join("   " + ln + "\n" for ln in lines))
                else:
                    out.append("```{toc}" + (" " + title if title else "") + "\n" + "".join(ln + "\n" for ln in lines) + "```\n")
            else:
                out.append("para toc\n")
        elif b["k"] == "inc":
            out.append("```{include} heads.md\n```\n")
        else:
            out.append("***\n")
    out.append("[r]: /ref\n")
    if "abbr" in (doc.get("plugins") or []):
        out.append(ABBRS)
    return "\n".join(out)


def _converter(m, doc):
    from mistune.toc import add_toc_hook
    from mistune.directives import FencedDirective, RSTDirective, TableOfContents
    if doc.get("style") == "rst":
        FencedDirective = RSTDirective  # noqa: N806  (the include fixtures are written for the fenced style only)
    inc = any(b["k"] == "inc" for b in doc["blocks"])
    if inc:
        from mistune.directives import Include
    names = list(doc.get("plugins") or [])
    if doc["mode"] == "hook":
        md = m.create_markdown(escape=doc["escape"], plugins=names + ([FencedDirective([Include()])] if inc else []))
        add_toc_hook(md, doc["range"][0], doc["range"][1])
    else:
        md = m.create_markdown(escape=doc["escape"], plugins=names + [FencedDirective([TableOfContents(1, 6)] + ([Include()] if inc else []))])
    return md


INC_HEADS = [{"k": "h", "level": 2, "md": "Inc two", "plain": "Inc two", "style": "atx"}, {"k": "h", "level": 3, "md": "Inc three", "plain": "Inc three", "style": "atx"}]


def _heads(doc):
    """the top-level headings in document order; an included Markdown file contributes its headings each time it is included"""
    out = []
    for b in doc["blocks"]:
        if b["k"] == "h":
            out.append(b)
        elif b["k"] == "inc":
            out += INC_HEADS
    return out


def _parse(md, doc, text):
    if any(b["k"] == "inc" for b in doc["blocks"]):
        import worker
        path = os.path.join(worker.fixtures(), "main.md")
        with open(path, "w", encoding="utf-8") as f:
            f.write(text)
        return md.read(path)
    return md.parse(text)


def _inc_docs(ctx, r, n):
    """documents that include the same Markdown file (with headings of its own) once, twice or three times"""
    docs = _docs(ctx, r, n)
    for d in docs:
        d["style"] = "fenced"
        for _ in range(r.randint(1, 3)):
            d["blocks"].insert(r.randint(0, len(d["blocks"])), {"k": "inc"})
    return docs


def _run_hook(m, doc):
    """returns (top-level token kinds, range or None, [(position, level, id)]) from the implementation"""
    md = _converter(m, doc)
    out, state = md.parse(_md_of(doc))
    toks = [(t["attrs"]["level"] if t["type"] == "heading" else None) for t in state.tokens]
    items = []
    for pos, t in enumerate(state.tokens):
        if t["type"] == "heading" and "id" in t["attrs"]:
            items.append((pos, t["attrs"]["level"], t["attrs"]["id"]))
    if doc["mode"] == "hook":
        env = state.env.get("toc_items")
        if env is None or [(l, i) for (l, i, _t) in env] != [(l, i) for (_p, l, i) in items]:
            return toks, tuple(doc["range"]), [("env-mismatch", repr(env), repr(items))]
        return toks, tuple(doc["range"]), items
    if not any(t["type"] == "toc" for t in state.tokens):
        return None
    return toks, None, items


def check_render(levels, render_toc_ul, fails):
    toc = _toc_of(levels)
    try:
        out = render_toc_ul(list(toc))
    except Exception as e:  # noqa
        fails.append({"input": list(levels), "kind": "render-exception", "got": "%s: %s" % (type(e).__name__, e)})
        return
    if not levels:
        if out != "":
            fails.append({"input": [], "kind": "empty-toc", "got": out})
        return
    try:
        items = read_toc(out)
    except ValueError as e:
        fails.append({"input": list(levels), "kind": "not-well-formed", "got": out, "detail": str(e)})
        return
    want = _spec_parents(levels)
    got = [(it["href"], it["text"], it["parent"]) for it in items]
    exp = [("i%d" % i, "T%d" % i, want[i]) for i in range(len(levels))]
    if got != exp:
        fails.append({"input": list(levels), "kind": "wrong-nesting-or-order", "got": got, "expected": exp, "html": out})


class _Env:
    def __init__(self, env):
        self.env = env


def _shortcut(m, doc, text):
    """mistune.markdown(text, plugins=names + [a function made for this call that installs the TOC hook with the document's range]);
    returns the HTML and what the hook left in the environment of THIS conversion"""
    from mistune.toc import add_toc_hook
    cap = {}

    def make(lo, hi, cap):
        def install(md):
            add_toc_hook(md, lo, hi)

            def keep(md_, result, state):
                cap["toc_items"] = state.env.get("toc_items")
                return result
            md.after_render_hooks.append(keep)
        return install
    # the call before this one asked for another range, with a function of its own that is gone by now
    a, b = doc["range"]
    other = (1, 1) if (a, b) != (1, 1) else (2, 6)
    m.markdown(text, escape=doc["escape"], plugins=list(doc.get("plugins") or []) + [make(other[0], other[1], {})])
    out = m.markdown(text, escape=doc["escape"], plugins=list(doc.get("plugins") or []) + [make(a, b, cap)])
    return out, _Env(cap)


STRIP = re.compile(r"<!--.*?-->|<[^<>]*>", re.S)


def _heading_texts(out):
    """[(level, id, text of the heading as the page shows it: its inner HTML without the tags)]"""
    return [(int(lv), hid, STRIP.sub("", inner)) for lv, hid, inner in re.findall(r'<h(\d) id="([^"]*)">(.*?)</h\1>', out, re.S)]


def check_doc(m, doc, fails):
    from mistune.toc import render_toc_ul
    text = _md_of(doc)
    try:
        if doc.get("shortcut") and doc["mode"] == "hook" and not any(b["k"] == "inc" for b in doc["blocks"]):
            out, state = _shortcut(m, doc, text)
        else:
            md = _converter(m, doc)
            out, state = _parse(md, doc, text)
    except Exception as e:  # noqa
        fails.append({"input": doc, "kind": "exception", "got": "%s: %s" % (type(e).__name__, e)})
        return
    heads = _heads(doc)
    import re as _re
    if doc["escape"]:
        esc = lambda s: m.escape(s.replace("\x01", "").replace("\x02", ""))  # noqa: E731
    else:
        esc = lambda s: _re.sub("\x01[^\x02]*\x02", "", s).replace("&", "&amp;").replace("<", "&lt;")  # noqa: E731
    if doc["mode"] == "hook":
        lo, hi = doc["range"]
        elig = [b for b in heads if lo <= b["level"] <= hi]
        want = [(b["level"], "toc_%d" % (i + 1), esc(b["plain"])) for i, b in enumerate(elig)]
        got = state.env.get("toc_items")
        if got is None or [tuple(x) for x in got] != want:
            fails.append({"input": doc, "md": text, "kind": "hook-items", "got": got, "expected": want})
            return
        ids = re.findall(r'<h(\d) id="([^"]*)">', out)
        if ids != [(str(l), i) for (l, i, _t) in want] or out.count("<h") - out.count("<hr") < len(heads):
            fails.append({"input": doc, "md": text, "kind": "hook-heading-ids", "got": ids, "expected": want, "html": out})
            return
        shown = _heading_texts(out)
        if shown != want:
            fails.append({"input": doc, "md": text, "kind": "hook-entry-is-not-the-heading-text", "got": shown, "expected": want, "html": out})
    else:
        want_all = [(b["level"], "toc_%d" % (i + 1), esc(b["plain"])) for i, b in enumerate(heads)]
        secs = [b for b in doc["blocks"] if b["k"] == "toc"]
        found = re.findall(r'<details class="toc"( open)?>\n<summary>([^<]*)</summary>\n(.*?)</details>\n', out, re.S)
        tocs = [f[2] for f in found]
        frames = [(f[0] == "", f[1]) for f in found]
        want_frames = [("collapse" in b.get("opts", []), b.get("title") or "Table of Contents") for b in secs]
        if len(tocs) == len(secs) and frames != want_frames:
            fails.append({"input": doc, "md": text, "kind": "directive-frame", "got": frames, "expected": want_frames, "html": out})
            return
        if len(tocs) != len(secs):
            fails.append({"input": doc, "md": text, "kind": "directive-count", "got": len(tocs), "expected": len(secs), "html": out})
            return
        if secs:
            ids = re.findall(r'<h(\d) id="([^"]*)">', out)
            if ids != [(str(l), i) for (l, i, _t) in want_all]:
                fails.append({"input": doc, "md": text, "kind": "directive-heading-ids", "got": ids, "expected": want_all})
                return
            shown = _heading_texts(out)
            if shown != want_all:
                fails.append({"input": doc, "md": text, "kind": "directive-entry-is-not-the-heading-text", "got": shown, "expected": want_all, "html": out})
                return
        for sec, body in zip(secs, tocs):
            want = [(l, i, t) for (l, i, t) in want_all if sec["min"] <= l <= sec["max"]]
            try:
                items = read_toc(body) if body else []
            except ValueError as e:
                fails.append({"input": doc, "md": text, "kind": "directive-toc-not-well-formed", "got": body, "detail": str(e)})
                return
            got = [(it["href"], it["text"]) for it in items]
            if got != [(i, t) for (_l, i, t) in want]:
                fails.append({"input": doc, "md": text, "kind": "directive-toc-items", "got": got, "expected": want})
                return
            par = _spec_parents([l for (l, _i, _t) in want])
            if [it["parent"] for it in items] != par:
                fails.append({"input": doc, "md": text, "kind": "directive-toc-nesting", "got": [it["parent"] for it in items], "expected": par})
                return


def oracle(ctx, extra):
    m = ctx.mistune
    from mistune.toc import render_toc_ul
    r = ctx.rng("oracle")
    fails = []
    seqs = _level_seqs(ctx, r)
    for e in extra:
        if isinstance(e, list) and e and isinstance(e[0], list):
            seqs.insert(0, tuple(x[0] for x in e))
    n = 0
    for s in seqs:
        n += 1
        check_render(s, render_toc_ul, fails)
        if len(fails) >= 5:
            break
    docs = [e for e in extra if isinstance(e, dict)] + _docs(ctx, r, ctx.n(600, 10000)) + _inc_docs(ctx, r, ctx.n(120, 2000))
    nd = 0
    for d in docs:
        if len(fails) >= 8:
            break
        nd += 1
        check_doc(m, d, fails)
    return {"evaluations": n + nd, "distinct_nontrivial": sum(1 for s in seqs[:n] if len(set(s)) > 1) + sum(1 for d in docs[:nd] if any(b["k"] == "h" for b in d["blocks"])),
            "failures": fails, "exhaustive": False,
            "rule": "render_toc_ul: ALL level sequences over 1..6 up to length %d plus random long ones (also levels "
                    "outside 1..6), output parsed by a strict ul/li/a reader and compared with the closest-preceding-"
                    "shallower tree; documents: random mixes of atx/setext headings with inline markup (star and underscore emphasis, code, inline and reference links, backslash escapes, & and <, inline HTML of every kind: tags, comments, processing instructions, declarations, CDATA), paragraphs, "
                    "headings nested in quotes/lists (must be ignored), toc sections with ranges, via add_toc_hook and "
                    "via the TableOfContents directive in the fenced and the RST style, with every subset and order of the options min-level / max-level / collapse (an absent level means the configured default) and optional titles (frame: open unless collapsed, summary = title), escape on/off; a sixth of the documents converted with a file context and including one Markdown file with two headings one to three times (each inclusion contributes its headings); ids, order, listed items, entry text checked; "
                    "non-trivial = at least two distinct levels / at least one heading" % ctx.n(5, 7),
            "samples": [json.dumps(seqs[4000]), json.dumps(_md_of(docs[0]))]}


def replay(ctx, case):
    c = case.get("case", case)
    fails = []
    if isinstance(c.get("input"), dict):
        check_doc(ctx.mistune, c["input"], fails)
    else:
        from mistune.toc import render_toc_ul
        check_render(tuple(c["input"]), render_toc_ul, fails)
    return fails[0] if fails else None
