"""C18 — escaping and key utilities are safe and stable."""
import html
import itertools
import json

from common import run_model

ID = "C18"
LEVEL = "proof"
GEN = ["UtilGen"]
COQ = ["Props/C18.vo"]
EXPLANATION = (
    "Theorems in coq/Props/C18.v, for all strings: escape() output has no '<' '>' (and no '\"' with quoting) and "
    "html.unescape(escape(s)) = s; escape_url() output is printable ASCII without '\"' '<' '>' space, is a fixed point of "
    "quote (so %HH octets are left alone) and is idempotent whenever the second unescape decodes nothing; safe_entity() "
    "output has no '<' '>' '\"'; unikey() is idempotent and invariant under replacing any white-space run by another, "
    "adding leading/trailing white space, and replacing characters by their str.upper()/str.lower() images. Each is an "
    "instance of a lemma proved once for arbitrary tables/replace chains under a boolean side condition, and the side "
    "condition is evaluated by vm_compute on the data regenerated from src/mistune/util.py and from the running "
    "CPython (html5 entity table, str.isspace, lower/upper per code point).")
ASSUMPTIONS = [
    "models of html.unescape, mistune.util.unescape (regex-driven scanners written by hand), urllib.parse.quote and of "
    "str.split/strip/lower/upper (table driven) are faithful: validated here against CPython exhaustively on short "
    "strings over their special alphabet and on every code point",
    "s.lower().upper() equals the concatenation of per-character images (true for CPython: the only context-sensitive "
    "rule of lower(), final sigma, is erased by upper(); swept over all code points and sigma contexts by the oracle)"]
TRUSTED = ["Gen/UtilGen.v tables are produced by the interpreter that runs mistune (/venv/bin/python)"]

ALPHA = list("&<>\"';#xamplt gquo%41") + ["\t", "é", "ß", "Σ", "\U0001f600"]
ALPHA = list(dict.fromkeys(ALPHA))
UNI = [" ", " ", "İ", "ı", "ς", "σ", "ẞ", "ﬁ", "ͅ", "\x0b", "\x1c", "\x85",
       " ", "　", "中", "́", "\x00", "\x7f", "퟿", "", "\U0010ffff", "I", "i", "K", "K"]
URL_OK = set("ABCDEFGHIJKLMNOPQRSTUVWXYZabcdefghijklmnopqrstuvwxyz0123456789-._~:/?#[]@!$&'()*+,;=%")
HEX = "0123456789abcdefABCDEF"


def _strings(ctx, tag):
    r = ctx.rng(tag)
    L = ctx.n(3, 4)
    out = [""]
    for n in range(1, L + 1):
        out += ["".join(t) for t in itertools.product(ALPHA, repeat=n)]
    for _ in range(ctx.n(3000, 40000)):
        k = r.random()
        n = r.randint(1, 14)
        if k < 0.5:
            out.append("".join(r.choice(ALPHA) for _ in range(n)))
        elif k < 0.8:
            out.append("".join(r.choice(ALPHA + UNI) for _ in range(n)))
        elif k < 0.9:
            out.append("".join(r.choice(["&", "#", "x", "X", ";", "0", "9", "a", "F", "65", "128", "1114112", "55296", "amp",
                                         "lt", "copy", "notit", "nosuch", "AMP", "Aacute", " ", "&amp;", "&#", "00000065"])
                               for _ in range(r.randint(1, 6))))
        else:
            out.append("".join(chr(r.choice([r.randrange(0x20, 0x7f), r.randrange(0xa0, 0x3000), r.randrange(0x10000, 0x10ffff)]))
                               for _ in range(n)))
    return list(dict.fromkeys(out))


def _impl_funcs(m):
    from mistune.util import unescape
    return {
        "escape_q": lambda s: m.escape(s),
        "escape_nq": lambda s: m.escape(s, False),
        "unescape": unescape,
        "html_unescape": html.unescape,
        "escape_url": m.escape_url,
        "safe_entity": m.safe_entity,
        "unikey": m.unikey,
    }


def correspondence(ctx):
    m = ctx.mistune
    fs = _impl_funcs(m)
    strs = _strings(ctx, "corr")
    # per-code-point sweep for the table-driven functions (sampled in quick, complete in thorough)
    r = ctx.rng("cp")
    cps = [chr(i) for i in range(0x110000) if not 0xD800 <= i < 0xE000]
    cp_sample = cps if not ctx.quick else [cps[i] for i in sorted(r.sample(range(len(cps)), 20000))] + [chr(i) for i in range(0x2000)]
    reqs, keys = [], []
    for s in strs:
        for name in ("escape_q", "escape_nq", "unescape", "html_unescape", "escape_url", "safe_entity", "unikey"):
            if name == "escape_q":
                reqs.append(("escape", [s, True]))
            elif name == "escape_nq":
                reqs.append(("escape", [s, False]))
            else:
                reqs.append((name, s))
            keys.append((name, s))
    for c in cp_sample:
        for name in ("unikey", "escape_url"):
            for s in (c, "a" + c + " b"):
                reqs.append((name, s))
                keys.append((name, s))
    reqs.append(("escape_url", "\ud800"))
    keys.append(("escape_url", "\ud800"))
    res = run_model(reqs)
    dis = []
    for (name, s), mv in zip(keys, res):
        try:
            iv = fs[name](s)
        except UnicodeEncodeError:
            iv = None
        except Exception as e:  # noqa
            iv = "EXC:" + type(e).__name__
        if iv != mv:
            dis.append({"input": s, "function": name, "model": mv, "impl": iv})
            if len(dis) > 50:
                break
    return {"evaluations": len(reqs), "disagreements": dis, "strings": len(strs), "code_points": len(cp_sample),
            "exhaustive_up_to_length": ctx.n(3, 4), "alphabet": "".join(ALPHA),
            "samples": [json.dumps(s) for s in strs[500:505]]}


def _ws_variants(r, s):
    import re
    WS = [" ", "\t", "\n", "  ", " \t\n ", " ", "  ", "\x0b", "\x1c", " ", "\r\n"]
    parts = re.split(r"(\s+)", s)
    out = "".join(r.choice(WS) if (p and p.isspace()) else p for p in parts)
    return r.choice(["", " ", "\n\t"]) + out + r.choice(["", " ", "　"])


def check_all(m, s, r, fails, why=None):
    """the property, stated directly on the implementation"""
    esc, escurl, se, uk = m.escape, m.escape_url, m.safe_entity, m.unikey
    from mistune.util import unescape

    def bad(kind, **kw):
        d = {"input": s, "kind": kind}
        d.update(kw)
        fails.append(d)
    e = esc(s)
    if any(c in e for c in '<>"'):
        bad("escape-special", got=e)
    e2 = esc(s, False)
    if any(c in e2 for c in "<>"):
        bad("escape-noquote-special", got=e2)
    if html.unescape(e) != s or html.unescape(e2) != s:
        bad("escape-roundtrip", got=[html.unescape(e), html.unescape(e2)])
    t = se(s)
    if any(c in t for c in '<>"'):
        bad("safe_entity-special", got=t)
    try:
        u = escurl(s)
    except UnicodeEncodeError:
        u = None
        if not any(0xD800 <= ord(c) < 0xE000 for c in s):
            # (a lone surrogate in the INPUT cannot be encoded: known finding of C01; any other input must be answered)
            bad("escape_url-raises", got="UnicodeEncodeError")
    if u is not None:
        if any(c not in URL_OK for c in u):
            bad("escape_url-unsafe-char", got=u)
        if unescape(u) == u and html.unescape(u) == u:
            try:
                u2 = escurl(u)
            except Exception as ex:  # noqa
                u2 = "EXC:" + type(ex).__name__
            if u2 != u:
                bad("escape_url-not-idempotent", got=[u, u2])
        if "&" not in s and all(c in URL_OK and c not in "[]'" for c in s) and u != s:
            bad("escape_url-changes-safe-input", got=u)
    k = uk(s)
    if uk(k) != k:
        bad("unikey-not-idempotent", got=[k, uk(k)])
    for v in (s.upper(), s.lower(), s.swapcase(), _ws_variants(r, s)):
        if uk(v) != k:
            bad("unikey-variant", variant=v, got=[k, uk(v)])
            break


def oracle(ctx, extra):
    m = ctx.mistune
    r = ctx.rng("oracle")
    fails = []
    strs = [e for e in extra if isinstance(e, str)] + _strings(ctx, "oracle")
    # percent-encoded octets of every case mix, alone and embedded
    pct = ["%" + a + b for a in HEX for b in HEX]
    strs += pct + ["/p/" + x + "/q" + y for x in pct[::7] for y in pct[::31]]
    # numeric character references to every kind of code point (boundaries of the C0/C1 controls, the windows-1252 remapping, the
    # surrogates, the noncharacters, the end of Unicode and beyond), decimal and hexadecimal, with and without the semicolon, embedded
    edges = [0, 1, 9, 10, 13, 31, 32, 38, 60, 127, 128, 133, 150, 159, 160, 255, 0x2028, 0xD7FF, 0xD800, 0xD801, 0xDBFF, 0xDC00, 0xDFFF, 0xE000, 0xFDCF, 0xFDD0, 0xFDEF,
             0xFFFD, 0xFFFE, 0xFFFF, 0x10000, 0x1FFFE, 0x10FFFF, 0x110000, 0x7FFFFFFF] + [r.randrange(0x110000) for _ in range(ctx.n(300, 3000))]
    for cp in edges:
        for form in ("&#%d;", "&#x%x;", "&#X%X;", "&#%d", "&#x%X", "&#0%d;"):
            ref = form % cp
            strs += [ref, "/p?x=" + ref + "&y", "a" + ref + "b"]
    n = 0
    for s in strs:
        n += 1
        try:
            check_all(m, s, r, fails)
        except Exception as e:  # noqa
            fails.append({"input": s, "kind": "exception", "got": "%s: %s" % (type(e).__name__, e)})
        if len(fails) >= 8:
            break
    # every code point (complete sweep: cheap)
    sweep = 0
    if len(fails) < 8:
        for i in range(0x110000):
            if 0xD800 <= i < 0xE000:
                continue
            c = chr(i)
            sweep += 1
            k = m.unikey(c)
            ctxs = m.unikey("a" + c + " b")
            if m.unikey(k) != k or m.unikey(c.upper()) != k or m.unikey(c.lower()) != k or \
                    m.unikey("A" + c.upper() + "\t\nB") != ctxs or m.unikey("a" + c.lower() + "  b ") != ctxs:
                fails.append({"input": c, "kind": "unikey-codepoint", "got": [k, m.unikey(c.upper()), m.unikey(c.lower())]})
            u = m.escape_url(c)
            if any(ch not in URL_OK for ch in u):
                fails.append({"input": c, "kind": "escape_url-unsafe-char", "got": u})
            e = m.escape(c)
            if (c in '<>"' and c in e) or html.unescape(e) != c:
                fails.append({"input": c, "kind": "escape-codepoint", "got": e})
            if len(fails) >= 8:
                break
    return {"evaluations": n + sweep, "distinct_nontrivial": sum(1 for s in strs[:n] if any(c in s for c in "&<>\"% \t") or not s.isascii()),
            "failures": fails, "code_points_swept": sweep, "exhaustive": False,
            "rule": "all strings up to length %d over the alphabet %r, random strings over that alphabet + interesting "
                    "Unicode, charref-shaped strings, numeric character references (6 spellings, alone and embedded) to the boundary code points of the controls, the windows-1252 remapping, the surrogates, the noncharacters and the end of Unicode plus sampled ones, all 484 %%HH octets of every hex case (alone and embedded), plus a "
                    "complete sweep of all 1112064 scalar code points; each input is checked against every clause of the "
                    "property on the real functions; non-trivial = contains a character the functions treat specially or "
                    "non-ASCII; distinct by text" % (ctx.n(3, 4), "".join(ALPHA)),
            "samples": [json.dumps(s) for s in strs[1000:1004]]}


def replay(ctx, case):
    c = case.get("case", case)
    fails = []
    check_all(ctx.mistune, c["input"], ctx.rng("replay"), fails)
    return fails[0] if fails else None
