"""C05 — the token tree obeys the documented grammar."""
import json

import gen_docs

ID = "C05"
LEVEL = "other"
GEN = ["RxGen", "UnicodeGen", "InlineGen", "BlockGen", "UtilGen", "NormalizeGen", "TableGen"]
COQ = ["Props/C05.vo"]
EXPLANATION = (
    "PARTIAL proof + oracle. Proved on the block parser model (coq/Model/Block.v, tied by skeletons with constants, BlockGen and the token-tree correspondence run of this check), for every text: the children of a list are list items, list items occur nowhere else, and the children of quotes and list items are again well-formed block tokens at every depth (C05_block_tree_is_well_typed; lifted through the inline pass to the whole AST of the document model, with heading levels 1-6, as C05_document_ast_is_well_typed; quote/list nesting never exceeds max_nested_level (regenerated: 6) in the block tree and in the whole AST (C05_nesting_never_exceeds_the_maximum, C05_document_nesting_never_exceeds_the_maximum - the statement was false, of model and code alike, before fix 890925f: the proof attempt found the unbounded staircase of lone '-' lines); every table row has as many cells as the header, each with its column's alignment, head flags as documented - on the model of the table plugin (coq/Model/Table.v: parse_table, parse_nptable, _process_thead, _process_row with Pattern.split and str.splitlines modelled; tied by skeletons with constants - TableGen - the regenerated patterns and a function-level correspondence run) (C05_table_rows_match_the_header); an invariant carried through every handler and loop, no assumption on the patterns); and every heading anywhere in the tree has a level between 1 and 6 (C05_heading_levels_are_1_to_6: the ATX level is the length of capture group 1 of a match of an ATX rule, and two analyses proved sound - a group's capture spans within given bounds, a group always participates - are evaluated on the regenerated ATX patterns, including the list-item scanner's variants). The token grammar (block vs inline position, raw xor children, no "
    "left-over 'text', heading levels 1-6, list/list_item typing with integer start, link/image url, table arity and "
    "alignment, nesting bound, JSON-serialisability) is checked by an independent Python validator on the token lists "
    "produced with renderer=None for generated documents under core, every plugin and both directive styles. Coq part "
    "(coq/Props/C05.v): attribute bounds that follow from the regenerated patterns - the ATX marker group matches 1-6 '#', "
    "the ordered-list start has at most 9 digits - by reflection on the pattern ASTs. The full inductive proof needs the "
    "parser model and is not claimed.")
ASSUMPTIONS = ["the validator in this file is the statement of the grammar"]
TRUSTED = []
TECHNIQUE = "Coq reflection on regenerated regex ASTs for attribute bounds; grammar validated by an independent checker on generated documents"

INLINE = {"text", "emphasis", "strong", "link", "image", "codespan", "linebreak", "softbreak", "inline_html",
          "strikethrough", "mark", "insert", "superscript", "subscript", "footnote_ref", "abbr", "inline_math", "ruby", "inline_spoiler"}
BLOCK = {"paragraph", "heading", "blank_line", "thematic_break", "block_text", "block_code", "block_quote", "block_html", "block_error",
         "list", "table", "def_list", "block_math", "block_spoiler", "footnotes", "admonition", "toc", "block_image", "figure", "include"}
# containers: type -> (children kind, allowed child types or None)
CONTAINER = {
    "paragraph": ("inline", None), "heading": ("inline", None), "block_text": ("inline", None),
    "emphasis": ("inline", None), "strong": ("inline", None), "link": ("inline", None), "image": ("inline", None),
    "strikethrough": ("inline", None), "mark": ("inline", None), "insert": ("inline", None), "superscript": ("inline", None),
    "subscript": ("inline", None), "abbr": ("inline", None), "inline_spoiler": ("inline", None),
    "block_quote": ("block", None), "block_spoiler": ("block", None),
    "list": ("special", {"list_item", "task_list_item"}), "list_item": ("block", None), "task_list_item": ("block", None),
    "table": ("special", {"table_head", "table_body"}), "table_head": ("special", {"table_cell"}),
    "table_body": ("special", {"table_row"}), "table_row": ("special", {"table_cell"}), "table_cell": ("inline", None),
    "def_list": ("special", {"def_list_head", "def_list_item"}), "def_list_head": ("inline", None), "def_list_item": ("block", None),
    "footnotes": ("special", {"footnote_item"}), "footnote_item": ("block", None),
    "admonition": ("special", {"admonition_title", "admonition_content"}), "admonition_title": ("inline", None),
    "admonition_content": ("block", None), "toc": ("inline", None),
    "figure": ("special", {"block_image", "figcaption", "legend"}), "figcaption": ("inline", None), "legend": ("block", None),
}
LEAF_RAW = {"text", "codespan", "inline_html", "block_code", "block_html", "block_error", "footnote_ref", "inline_math", "block_math", "ruby", "include"}
LEAF_NONE = {"linebreak", "softbreak", "blank_line", "thematic_break", "block_image"}


def validate(tokens, max_nested=6):
    """returns list of violations (strings with a path)"""
    bad = []

    def err(path, msg):
        if len(bad) < 5:
            bad.append("%s: %s" % (path, msg))

    def walk(toks, kind, allowed, path, depth):
        if not isinstance(toks, list):
            return err(path, "children is not a list")
        for i, t in enumerate(toks):
            p = "%s/%d" % (path, i)
            if not isinstance(t, dict) or not isinstance(t.get("type"), str):
                err(p, "not a token with a string type")
                continue
            ty = t["type"]
            p = "%s:%s" % (p, ty)
            if "text" in t:
                err(p, "left-over unprocessed 'text'")
            if "raw" in t and "children" in t:
                err(p, "both raw and children")
            if "raw" in t and not isinstance(t["raw"], str):
                err(p, "raw is not a string")
            if allowed is not None:
                if ty not in allowed:
                    err(p, "not allowed here (expected one of %s)" % sorted(allowed))
            elif kind == "inline" and ty not in INLINE:
                err(p, "non-inline token in an inline container")
            elif kind == "block" and ty not in BLOCK:
                err(p, "non-block token in a block container")
            attrs = t.get("attrs")
            if attrs is not None and not isinstance(attrs, dict):
                err(p, "attrs is not a dict")
                attrs = {}
            attrs = attrs or {}
            if ty in CONTAINER:
                if "children" not in t:
                    err(p, "container without children")
                else:
                    ck, ca = CONTAINER[ty]
                    d2 = depth + (1 if ty in ("block_quote", "list", "block_spoiler") else 0)
                    if d2 > max_nested:
                        err(p, "quote/list nesting %d exceeds the maximum %d" % (d2, max_nested))
                    walk(t["children"], ck, ca, p, d2)
            elif ty in LEAF_RAW:
                if "raw" not in t:
                    err(p, "leaf without raw")
            elif ty in LEAF_NONE:
                if "raw" in t or "children" in t:
                    err(p, "token must carry neither raw nor children")
            else:
                err(p, "unknown token type")
            if ty == "heading":
                lv = attrs.get("level")
                if not (isinstance(lv, int) and not isinstance(lv, bool) and 1 <= lv <= 6):
                    err(p, "heading level %r" % (lv,))
            if ty == "list":
                if not isinstance(attrs.get("ordered"), bool) or not isinstance(attrs.get("depth"), int):
                    err(p, "list attrs %r" % (attrs,))
                if "start" in attrs and not (isinstance(attrs["start"], int) and not isinstance(attrs["start"], bool)):
                    err(p, "list start %r" % (attrs["start"],))
                if "start" in attrs and not attrs.get("ordered"):
                    err(p, "start on a bullet list")
                if not isinstance(t.get("tight"), bool):
                    err(p, "list without tight flag")
            if ty in ("link", "image"):
                if not isinstance(attrs.get("url"), str):
                    err(p, "link/image without url")
                if "title" in attrs and attrs["title"] is not None and not isinstance(attrs["title"], str):
                    err(p, "title %r" % (attrs["title"],))
            if ty == "table":
                ch = t.get("children") or []
                if len(ch) != 2 or ch[0].get("type") != "table_head" or ch[1].get("type") != "table_body":
                    err(p, "table must be [table_head, table_body]")
                else:
                    head = ch[0].get("children") or []
                    aligns = [c.get("attrs", {}).get("align") for c in head]
                    if not head:
                        err(p, "empty table head")
                    for c in head:
                        if c.get("attrs", {}).get("head") is not True or c.get("attrs", {}).get("align") not in (None, "left", "right", "center"):
                            err(p, "head cell attrs %r" % (c.get("attrs"),))
                    for ri, row in enumerate(ch[1].get("children") or []):
                        cells = row.get("children") or []
                        if len(cells) != len(head):
                            err(p, "row %d has %d cells, header has %d" % (ri, len(cells), len(head)))
                        elif [c.get("attrs", {}).get("align") for c in cells] != aligns:
                            err(p, "row %d alignments differ from the header's" % ri)
                        for c in cells:
                            if c.get("attrs", {}).get("head") is not False:
                                err(p, "body cell marked as head")
            if ty == "block_code" and "info" in attrs and not isinstance(attrs["info"], str):
                err(p, "info %r" % (attrs["info"],))
            if ty in ("task_list_item",) and not isinstance(attrs.get("checked"), bool):
                err(p, "task item without checked flag")
            if ty == "footnote_ref" and not (isinstance(attrs.get("index"), int) and attrs["index"] >= 1):
                err(p, "footnote_ref index %r" % (attrs.get("index"),))
    walk(tokens, "block", None, "", 0)
    return bad


def _vanishes_without_setext_bypass(md, doc):
    """mechanism-level classification of the known finding: the nesting violation disappears when
    parse_setex_heading is kept from opening a list at the depth limit"""
    block = md.block
    orig = block._methods.get("setex_heading")
    if orig is None:
        return False

    def patched(m, state):
        last = state.last_token()
        if not (last and last["type"] == "paragraph") and state.depth() >= block.max_nested_level:
            sc = block.compile_sc(["thematic_break"])
            m2 = sc.match(state.src, state.cursor)
            return block.parse_method(m2, state) if m2 else None
        return orig(m, state)
    block._methods["setex_heading"] = patched
    try:
        toks = md(doc)
        return not any("nesting" in p for p in validate(toks))
    except Exception:  # noqa
        return False
    finally:
        block._methods["setex_heading"] = orig


class _Seen:
    """converts with the HTML renderer and returns state.tokens: what Markdown._iter_render handed to the renderer"""

    def __init__(self, m, kind):
        from mistune.directives import FencedDirective, RSTDirective, TableOfContents
        from mistune.toc import add_toc_hook
        if kind == "hook":
            self.md = m.create_markdown(plugins=["table", "footnotes", "abbr"])
            add_toc_hook(self.md, 1, 6)
        else:
            self.md = m.create_markdown(plugins=["table", "footnotes", FencedDirective([TableOfContents(1, 6)]), RSTDirective([TableOfContents(1, 6)])])
        self.kind = kind
        self.block = self.md.block     # (the mechanism classifier patches a method of the block parser in place)

    def __call__(self, doc):
        if self.kind == "directive" and "{toc}" not in doc and ".. toc::" not in doc:
            doc = doc + "\n\n```{toc}\n```\n"
        _out, state = self.md.parse(doc)
        return state.tokens


def configs(m):
    from mistune.directives import Admonition, Figure, FencedDirective, Image, Include, RSTDirective, TableOfContents
    P = gen_docs.ALL_PLUGINS
    return [
        ("ast-core", m.create_markdown(renderer=None), (), False),
        ("ast-all", m.create_markdown(renderer=None, plugins=P), P, False),
        ("ast-all-speedup-hardwrap", m.create_markdown(renderer="ast", hard_wrap=True, plugins=P + ["speedup"]), P, False),
        ("ast-fenced", m.create_markdown(renderer=None, plugins=["table", "footnotes", FencedDirective([Admonition(), Image(), Figure(), Include()])]),
         ("table", "footnotes"), True),
        ("ast-rst", m.create_markdown(renderer=None, plugins=["def_list", "task_lists", RSTDirective([Admonition(), Image(), Figure(), Include()])]),
         ("def_list", "task_lists"), True),
        # every container-making plugin together with every directive style: containers inside directive bodies inside containers
        ("ast-containers", m.create_markdown(renderer=None, plugins=["def_list", "footnotes", "spoiler", "task_lists", "table", FencedDirective([Admonition(), Figure()]),
                                                                     RSTDirective([Admonition(), Figure()])]), ("def_list", "footnotes", "spoiler"), True),
        # the token list as a renderer sees it: the tokens of the state after a rendering conversion, with the TOC hook or the TOC
        # directive at work (both look at the headings before the inline pass)
        ("tokens-seen-by-html-renderer+toc-hook", _Seen(m, "hook"), ("table", "footnotes"), False),
        ("tokens-seen-by-html-renderer+toc-directive", _Seen(m, "directive"), ("table", "footnotes"), True),
        # custom fence characters are a separate entry point of the directive parser
        ("ast-colon", m.create_markdown(renderer=None, plugins=["table", "spoiler", FencedDirective([Admonition(), Image(), Figure()], ":")]),
         ("table", "spoiler"), True),
    ]


def check_doc(name, md, doc, fails, filectx=False):
    try:
        if filectx:
            import worker
            toks = worker.convert_file(md, doc)      # Markdown.read of a file next to the include fixtures
        else:
            toks = md(doc)
    except Exception:  # C01's business
        return False
    problems = []
    if not isinstance(toks, list):
        problems.append("result is not a list")
    else:
        try:
            json.dumps(toks)
        except (TypeError, ValueError) as e:
            problems.append("not JSON-serialisable: %s" % e)
        problems += validate(toks)
    if problems:
        f = {"input": doc, "config": name, "kind": "grammar-violation", "detail": problems[:4]}
        if not filectx and all("nesting" in p for p in problems) and _vanishes_without_setext_bypass(md, doc):
            f["class"] = "setext-underline-opens-list-at-depth-limit"
        fails.append(f)
    return True


def correspondence(ctx):
    import corr_block
    import corr_table
    a = corr_block.run(ctx, ctx.n(2000, 40000))
    b = corr_table.run(ctx, ctx.n(3000, 60000))
    return {"evaluations": a["evaluations"] + b["evaluations"], "disagreements": (a["disagreements"] + b["disagreements"])[:20],
            "parts": {"block parser model (token trees)": a["evaluations"], "table plugin model (parse_table / parse_nptable on table candidates)": b["evaluations"]},
            "histogram": b.get("histogram"), "samples": a.get("samples", []) + b.get("samples", [])}


def oracle(ctx, extra):
    m = ctx.mistune
    r = ctx.rng("oracle")
    cfgs = configs(m)
    fails = []
    n = 0
    seen = set()
    for i in range(ctx.n(4000, 80000)):
        name, md, plugins, directives = cfgs[i % len(cfgs)]
        k = r.random()
        if extra and i < len(extra) and isinstance(extra[i], str):
            doc = extra[i]
        elif k < 0.55:
            doc = gen_docs.doc(r, plugins=plugins, directives=directives)
        elif k < 0.7:
            doc = gen_docs.interaction_doc(r)
        elif k < 0.8:
            # nesting pumps around the limit
            depth = r.randint(4, 9)
            doc = "".join(r.choice(["> ", "- ", "1. ", "* "]) for _ in range(depth)) + r.choice(["x", "-", "# h", "[a]: /u", "```\nc\n```", "| a |\n|-|\n"]) + "\n"
            if r.random() < 0.25:
                # a directive (either fence style) at the bottom of a stack of quotes, holding containers again
                pre = "> " * r.choice([5, 6, 6, 7])
                fence = r.choice([":::", "::::", "```", "~~~~"])
                # under the configuration that knows this fence style
                name, md, plugins, directives = cfgs[8] if fence[0] == ":" else cfgs[3]
                body = [r.choice(["> inner", "- inner", "1. inner", "> - inner"]), r.choice(["text", "> more", fence[0] * (len(fence) - 1) + "x"])]
                doc = "".join(pre + l + "\n" for l in [fence + "{note} T"] + body + [fence])
            elif r.random() < 0.35:
                # containers of plugins (definition descriptions, footnote texts, spoilers) inside a directive body inside 0-6
                # quotes or list items, holding quotes and lists again: the nesting is counted from the top of the document
                pre = "".join(r.choice(["> ", "> ", "- "]) for _ in range(r.choice([0, 1, 1, 2, 3, 5, 6])))
                cont = pre.replace("- ", "  ")
                j = r.randint(3, 8)
                inner = "".join(r.choice(["> ", "> ", "- ", "1. "]) for _ in range(j)) + "deep"
                body = r.choice(["term\n: " + inner, "[^n]: " + inner, ">! " + inner, "term\n: - " + inner, inner])
                fence = r.choice(["```", "~~~~", ".."])
                name, md, plugins, directives = cfgs[5]
                if fence == "..":
                    lines = [".. note:: T", ""] + ["   " + l for l in body.split("\n")]
                else:
                    lines = [fence + "{note} T"] + body.split("\n") + [fence]
                doc = "".join((pre if i == 0 else cont) + l + "\n" for i, l in enumerate(lines))
            elif r.random() < 0.3:
                # staircase of lone markers below it (each line a continuation of the item above)
                mark, step = r.choice(["-", "+", "*", "1.", "=", "- x", ">"]), r.choice([2, 3])
                doc = "".join("> " * r.choice([0, 0, 3, 5]) + " " * (step * i) + mark + "\n" for i in range(r.randint(3, 12)))
            if r.random() < 0.4:
                # the same below a line of '-' or '=' at the top level (the rule that decides what such a line is depends on the depth
                # at which it stands: whatever it works out for one depth must not be used at another)
                doc = r.choice(["---\n\n", "intro\n\n---\n\n", "***\n===\n\n", "-\n\n", "=\n\n", "> ---\n\n", "- -\n\n"]) + doc
        elif k < 0.9:
            doc = gen_docs.mutate(r, gen_docs.doc(r, plugins=plugins, directives=directives))
        else:
            doc = gen_docs.noise(r)
        if check_doc(name, md, doc, fails):
            n += 1
            seen.add(doc)
        if i % 15 == 7:
            # with a file context: include directives (targets of every kind, also inside quotes) in the token list
            style = r.choice(["fenced", "rst"])
            name2, md2 = cfgs[3][:2] if style == "fenced" else cfgs[4][:2]
            d2 = gen_docs.include_doc(r, style)
            if check_doc(name2 + "+file", md2, d2, fails, filectx=True):
                n += 1
                seen.add(d2)
        if len([f for f in fails if not f.get("class")]) >= 5:
            break
    known = [f for f in fails if f.get("class")]
    fails = [f for f in fails if not f.get("class")] + known[:3]
    return {"evaluations": n, "distinct_nontrivial": len(seen), "failures": fails, "known_finding_instances": len(known),
            "rule": "55% generated documents, 15% interrupt/lazy fragments, 10% container pumps of depth 4-9 ending in various "
                    "blocks, directives holding containers, or indentation staircases of lone markers, 10% mutated, 10% noise; 6 configurations with renderer=None (core, all plugins, all+speedup+hardwrap, "
                    "fenced directives, RST directives, colon-fenced directives); every 15th iteration a document of include directives (also inside quotes) converted with a file context (Markdown.read); token list validated against the grammar and json.dumps; distinct by text",
            "samples": [json.dumps(gen_docs.doc(ctx.rng('s'), plugins=gen_docs.ALL_PLUGINS))[:300]]}


def check_known(ctx, k):
    fails = []
    check_doc("ast-core", ctx.mistune.create_markdown(renderer=None), k["input"], fails)
    return bool(fails)


def classify(f, known):
    for k in known:
        if k["id"] == f.get("class"):
            return k["id"]
    return None


def replay(ctx, case):
    c = case.get("case", case)
    fails = []
    cfg = c.get("config") or ""
    for name, md, _p, _d in configs(ctx.mistune):
        if name == cfg or name + "+file" == cfg:
            check_doc(cfg, md, c["input"], fails, filectx=cfg.endswith("+file"))
    return fails[0] if fails else None
