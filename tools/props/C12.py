"""C12 — link references resolve independently of position, case and spacing."""
import html as htmlmod
import json
import os
import re

from common import run_model

ID = "C12"
LEVEL = "proof"
GEN = ["RefLinksGen", "UtilGen", "RxGen", "UnicodeGen", "InlineGen", "BlockGen", "NormalizeGen"]
COQ = ["Props/C12.vo"]
EXPLANATION = (
    "Theorems in coq/Props/C12.v. On the block parser model (coq/Model/Block.v, tied by skeletons, BlockGen and a token-tree + table correspondence run): a definition is ignored or appended under a key not yet in the table, and through the whole block pass - every handler, nested or interrupting block - a defined key keeps its definition (C12_block_model_first_definition_is_kept); in the whole-document model every inline text, wherever it stands, is parsed with the one final table of the finished block pass (C12_document_scope). On the model of the reference table (first-wins insertion keyed by unikey, lookup by "
    "unikey, and the two-pass structure: the table used by EVERY inline lookup is the table of ALL definitions in "
    "document order): whole-document scope, first definition wins regardless of what else is defined, lookups are "
    "invariant under letter-case variants and white-space-run variants of the label on both the use and the definition "
    "side (through the C18 unikey theorems), undefined labels resolve to nothing. Tie: control skeletons + key "
    "constants of parse_ref_link, parse_link, BlockState (shared env), Markdown.parse/_iter_render (block pass before "
    "inline pass); correspondence on generated documents with definitions at top/bottom/inside quotes and list items.")
ASSUMPTIONS = [
    "that a definition WRITTEN in a quote/list item is in fact collected there, and the order in which the block pass "
    "meets definitions is document order: parser behaviour, validated by the correspondence (not proved here)",
    "label normalisation is util.unikey (C18)"]
TRUSTED = ["tools/skeletons/block_parse_ref_link.txt, inline_parse_link.txt"]

LABELS = ["foo", "Foo Bar", "x1", "straße", "Σίσυφος", "a b c", "İstanbul", "ünï", "R2 D2", "k",
          # labels at the length limit of 500 characters (backslash escapes count as one) and just below it
          "L" + "o" * 498 + "g", "m" * 499, "w " * 249 + "z", "e\\]" * 160 + "q", "a" * 480 + "\\[" * 10]
UNDEF = ["nope", "missing label", "zz"]


def spec_key(s):
    return " ".join(s.split()).lower().upper()


def variant(r, l):
    if len(l) > 400:
        # (labels at the length limit: only spellings of the same length)
        return r.choice([l, l.upper(), l.lower(), l.swapcase()])
    v = r.random()
    if v < 0.35:
        return l
    if v < 0.5:
        return l.upper()
    if v < 0.65:
        return l.lower()
    if v < 0.75:
        return l.swapcase()
    if v < 0.9 and " " in l:
        return l.replace(" ", r.choice(["  ", "\t", "\n", " \n ", "\t "]))
    return r.choice(["", " ", "  "]) + l + r.choice(["", " ", "\t"])


def gen_case(r, i=0):
    labs = r.sample(LABELS, r.randint(1, 5))
    defs = []     # (label spelling, url, title, placement)
    for l in labs:
        for _ in range(1 if r.random() < 0.7 else r.randint(2, 3)):
            defs.append([variant(r, l), "/u%d" % len(defs), r.choice([None, None, "T%d" % len(defs)]),
                         r.choice(["top", "top", "quote", "list", "olist", "quote-list", "deep", "deep6", "note", "note-quote", "rst-note", "rst-note-ragged", "include"])])
    r.shuffle(defs)
    for j, d in enumerate(defs):
        d[1] = "/u%d" % j
        if d[2]:
            d[2] = "T%d" % j
    if i % 6 == 5:
        # an EMPTY destination, written <>, is a definition like any other: it wins over later ones and resolves to href=""
        # (chosen from the case number, not from r: the other cases stay what they were)
        defs[i // 6 % len(defs)][1] = ""
    uses = []
    for _ in range(r.randint(1, 7)):
        l = r.choice(labs + labs + UNDEF)
        uses.append([variant(r, l) if l not in UNDEF else l, r.choice(["full", "collapsed", "shortcut"]),
                     r.choice(["p", "p", "quote", "list", "em", "heading", "html", "footnote"])])
    # interleave: each def is a block; uses are blocks; random order
    blocks = [("def", j) for j in range(len(defs))] + [("use", j) for j in range(len(uses))]
    r.shuffle(blocks)
    out = []
    def_order = []
    files = {}
    seen_keys = set()
    for kind, j in blocks:
        if kind == "def":
            lab, url, title, place = defs[j]
            line = "[%s]: %s%s" % (lab, url or "<>", (' "%s"' % title) if title else "")
            if "\n" in lab:
                place = "top" if place in ("quote", "quote-list", "deep", "deep6", "note", "note-quote", "rst-note", "rst-note-ragged", "include") else place
                defs[j][3] = place  # (the recorded placement is what collection_order reads)
            if place == "include" and spec_key(lab) not in seen_keys:
                # a definition written in an included Markdown file is always a REPEATED one here: whether the definitions of an
                # included file reach the including document or stay in the file, the first definition (above the directive) wins
                place = defs[j][3] = "top"
            seen_keys.add(spec_key(lab))
            if place == "top":
                out.append(line.replace("\n", "\n") + "\n")
            elif place == "quote":
                out.append("> " + line + "\n")
            elif place == "list":
                out.append("- " + line.replace("\n", "\n  ") + "\n")
            elif place == "olist":
                out.append("1. " + line.replace("\n", "\n   ") + "\n")
            elif place == "quote-list":
                out.append("> - " + line + "\n")
            elif place == "note":
                # the body of a directive is a container like a quote (converted with the admonition directive)
                out.append("```{note}\n" + line + "\n```\n")
            elif place == "note-quote":
                out.append("```{note} Title\n> " + line + "\n```\n")
            elif place == "rst-note":
                out.append(".. note:: T\n\n   " + line + "\n")
            elif place == "rst-note-ragged":
                # the lines of a directive body need not be indented alike: a first line indented deeper than the definition
                out.append(".. tip::\n\n     body begins deeper\n\n   " + line + "\n\n    and goes on\n")
            elif place == "include":
                files["part%d.md" % j] = r.choice(["", "included text\n\n", "> "]) + line + "\n" + r.choice(["", "\nuse [%s] inside\n" % lab])
                out.append("```{include} part%d.md\n```\n" % j)
            elif place == "deep6":
                # exactly max_nested_level containers, any mix of markers, first one a quote
                out.append("> " + "".join(r.choice(["> ", "- ", "1. "]) for _ in range(5)) + line + "\n")
            else:
                out.append("> > - > " + line + "\n")
            def_order.append(j)
        else:
            lab, form, place = uses[j]
            mark = "M%dx" % j
            if form == "full":
                t = "[%s][%s]" % (mark, lab)
            elif form == "collapsed":
                t = "%s:[%s][]" % (mark, lab)
            else:
                t = "%s:[%s]" % (mark, lab)
            lab1 = lab.replace("\n", "\n" + {"quote": "> ", "list": "  "}.get(place, ""))
            t = t.replace(lab, lab1)
            if place == "p":
                out.append("text %s end\n" % t)
            elif place == "quote":
                out.append("> q %s\n" % t)
            elif place == "list":
                out.append("- i %s\n" % t)
            elif place == "em":
                out.append("a *e %s* b\n" % t)
            elif place == "footnote":
                # the text of a footnote is part of the document (converted with the footnotes plugin)
                out.append("noted%d[^n%d]\n\n[^n%d]: note %s end\n" % (j, j, j, t.replace("\n", " ")))
            elif place == "html":
                # next to inline HTML that is not an open anchor: other tags (also ones whose name begins with "a"), a closed anchor
                out.append(r.choice(["text <abbr title=x>%s</abbr> end\n", "text <area shape=r> %s\n", "pre <b>%s</b> <i>x</i>\n", "text <AUDIO src=q> %s\n",
                                     "see <a href=/z>z</a> then %s\n", "x <acronym>%s</acronym>\n", "x <a href=/z>z</a><abbr>%s</abbr>\n", "x <!-- a --> %s <br/>\n"])
                           % t.replace("\n", " "))
            else:
                out.append("## h %s\n" % t.replace("\n", " "))
    return {"defs": [defs[j] for j in def_order], "uses": uses, "doc": "\n".join(out), "files": files,
            "blocks": [("def", defs[j]) if kind == "def" else ("use", None) for kind, j in blocks]}


def _converter(m, kind, footnotes=False, notes=False, include=False):
    plugins = ["footnotes"] if footnotes else []
    if notes or include:
        from mistune.directives import FencedDirective, RSTDirective, Admonition, Include
        plugins.append(FencedDirective([Admonition()] + ([Include()] if include else [])))
        plugins.append(RSTDirective([Admonition()]))
    md = m.create_markdown(plugins=plugins or None)
    if kind == "toc-hook":
        # the TOC hook parses heading texts a second time, before the document's inline pass
        from mistune.toc import add_toc_hook
        add_toc_hook(md, 1, 6)
    return md


def observe(m, case):
    doc = case["doc"]
    kind = "toc-hook" if sum(map(ord, doc)) % 3 == 0 else "plain"
    files = case.get("files") or {}
    md = _converter(m, kind, "[^" in doc, "```{note}" in doc or ".. note::" in doc or ".. tip::" in doc, bool(files))
    if files:
        # converted with a file context: the document and the files it includes are written to a scratch directory
        import shutil
        import tempfile
        d = tempfile.mkdtemp(prefix="c12_")
        try:
            for name, text in list(files.items()) + [("main.md", doc)]:
                with open(os.path.join(d, name), "w", encoding="utf-8", newline="") as f:
                    f.write(text)
            out = md.read(os.path.join(d, "main.md"))[0]
        finally:
            shutil.rmtree(d, ignore_errors=True)
    else:
        out = md(doc)
    res = []
    for j, (lab, form, place) in enumerate(case["uses"]):
        mark = "M%dx" % j
        if form == "full":
            mm = re.search(r'<a href="([^"]*)"(?: title="([^"]*)")?>%s</a>' % mark, out)
        else:
            mm = re.search(r'%s:<a href="([^"]*)"(?: title="([^"]*)")?>' % mark, out)
        if mm:
            res.append([htmlmod.unescape(mm.group(1)), htmlmod.unescape(mm.group(2)) if mm.group(2) else None])
        else:
            res.append(None if mark in out else "LOST")
    return res, out


def collection_order(defs_in_blocks):
    """the order in which the block pass meets the definitions: document order, except that a block quote
    directly following a top-level list is parsed BEFORE the last item of that list (known finding
    C12/list-item-then-quote)"""
    out = list(defs_in_blocks)
    i = 0
    while i + 1 < len(out):
        a, b = out[i], out[i + 1]
        if a[0] == "def" and b[0] == "def" and a[1][3] in ("list", "olist") and b[1][3] in ("quote", "quote-list", "deep", "deep6", "note", "note-quote"):   # (an RST directive does not interrupt a list item)
            out[i], out[i + 1] = b, a
            i += 2
        else:
            i += 1
    return [d for k, d in out if k == "def" and d[3] != "include"]    # (an included file keeps its definitions; they are repeated ones here anyway)


def expected(case, quirk=False):
    table = {}
    defs = case["defs"] if not quirk else collection_order(case["blocks"])
    for lab, url, title, _place in defs:
        k = spec_key(lab)
        if _place == "include":
            continue
        if k and k not in table:
            table[k] = [url, title]
    return [table.get(spec_key(lab)) for lab, _f, _p in case["uses"]]


def correspondence(ctx):
    import corr_block
    a = _table_correspondence(ctx)
    b = corr_block.run(ctx, ctx.n(1200, 20000))
    return {"evaluations": a["evaluations"] + b["evaluations"], "disagreements": (a["disagreements"] + b["disagreements"])[:20],
            "parts": {"reference-table model": a["evaluations"], "block parser model (tokens and table)": b["evaluations"]},
            "samples": a.get("samples", [])}


def _table_correspondence(ctx):
    m = ctx.mistune
    r = ctx.rng("corr")
    cases = [gen_case(r, i) for i in range(ctx.n(1500, 30000))]
    # the model takes the definitions in the order the block pass meets them
    reqs = [("ref_resolve", [[[l, u, t] for l, u, t, _p in collection_order(c["blocks"])], [l for l, _f, _p in c["uses"]]]) for c in cases]
    res = run_model(reqs)
    dis = []
    for c, mv in zip(cases, res):
        try:
            obs, out = observe(m, c)
        except Exception as e:  # noqa
            obs, out = "EXC:%s" % type(e).__name__, ""
        if obs != mv:
            dis.append({"input": c, "model": mv, "impl": obs})
            if len(dis) > 20:
                break
    return {"evaluations": len(cases), "disagreements": dis,
            "histogram": {"defs": sum(len(c["defs"]) for c in cases), "uses": sum(len(c["uses"]) for c in cases),
                          "nested_defs": sum(1 for c in cases for d in c["defs"] if d[3] != "top")},
            "samples": [json.dumps(cases[0]["doc"])]}


def _corner(defs, uses, doc):
    return {"defs": defs, "uses": uses, "doc": doc, "files": {}, "blocks": [("def", d) for d in defs] + [("use", None) for _ in uses]}


# documents compared on every run: a first definition with an empty destination, with and without a title, wins
CORNERS = [
    _corner([["foo", "", None, "top"], ["foo", "/u1", None, "top"]], [["foo", "shortcut", "p"]],
            "[foo]: <>\n\n[foo]: /u1\n\ntext M0x:[foo] end\n"),
    _corner([["Foo", "", "T0", "quote"], ["foo", "/u1", "T1", "top"]], [["FOO", "full", "p"]],
            "> [Foo]: <> \"T0\"\n\n[foo]: /u1 \"T1\"\n\ntext [M0x][FOO] end\n"),
]


def check_case(m, c, fails):
    try:
        obs, out = observe(m, c)
    except Exception as e:  # noqa
        fails.append({"input": c, "kind": "exception", "got": "%s: %s" % (type(e).__name__, e)})
        return
    want = expected(c)
    if obs != want:
        f = {"input": c, "kind": "resolution-differs-from-specification", "expected": want, "got": obs, "html": out[:2000]}
        if obs == expected(c, quirk=True):
            f["class"] = "list-item-then-quote"
        fails.append(f)


def oracle(ctx, extra):
    m = ctx.mistune
    r = ctx.rng("oracle")
    fails = []
    cases = [e for e in extra if isinstance(e, dict) and "defs" in e] + CORNERS + [gen_case(r, i) for i in range(ctx.n(2500, 60000))]
    n = 0
    for c in cases:
        n += 1
        check_case(m, c, fails)
        if len([f for f in fails if not f.get("class")]) >= 5:
            break
    known = [f for f in fails if f.get("class")]
    fails = [f for f in fails if not f.get("class")] + known[:3]
    return {"evaluations": n, "distinct_nontrivial": len({c["doc"] for c in cases[:n] if c["defs"] and c["uses"]}), "failures": fails,
            "known_finding_instances": len(known),
            "rule": "1-5 labels (ASCII, German sharp s, Greek with final sigma, dotted capital I, multi-word), each defined 1-3 "
                    "times with case/white-space variants (tabs, newlines, runs) at top level, in a quote, a bullet or ordered "
                    "item, a quote in a list, or 4 containers deep; 1-7 uses (full, collapsed, shortcut form; in paragraphs, "
                    "quotes, items, emphasis, headings, next to inline HTML that is not an open anchor, in the text of a footnote) of defined and undefined labels; a third of the documents converted with add_toc_hook installed; all blocks shuffled so uses come "
                    "before and after definitions; expected = first definition in document order with the same key under "
                    "an independent statement of the normalisation; distinct by document",
            "samples": [json.dumps(cases[0]["doc"])]}


def check_known(ctx, k):
    out = ctx.mistune.create_markdown()(k["input"])
    return 'href="/u0"' in out and 'href="/u1"' not in out


def classify(f, known):
    for k in known:
        if k["id"] == f.get("class"):
            return k["id"]
    return None


def replay(ctx, case):
    c = case.get("case", case)
    fails = []
    check_case(ctx.mistune, c["input"], fails)
    return fails[0] if fails else None
