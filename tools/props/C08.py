"""C08 — conversions are isolated from each other."""
import json
import re
import sys
import threading
import types

import gen_docs
from common import run_model

ID = "C08"
LEVEL = "proof"
GEN = ["StoreGen"]
COQ = ["Props/C08.vo"]
EXPLANATION = (
    "Theorems in coq/Props/C08.v on a store model: the only state that outlives a call are memo caches (compiled "
    "scanners keyed by rule list; plugin-module and converter caches behave alike); a call reads an entry or computes it "
    "from (configuration, key) and stores it. Invariant: every entry equals the pure function of its key. Proved: the "
    "invariant is preserved by every call; for every sequence of documents the i-th result equals that of a fresh "
    "converter (history independence, unbounded length); for every interleaving of the atomic cache accesses of "
    "concurrent calls every thread's result equals the fresh result; Parser.register clears the cache so results after a "
    "late md.use() are those of a fresh converter (the pre-fix behaviour is a refuted Example). Tie: a static inventory "
    "of every attribute/subscript store, delete, global and mutator call in src/mistune is regenerated and compared "
    "with a reviewed list; control skeletons of compile_sc/register/state constructors/parse/_iter_render/markdown(); "
    "and the check takes deep snapshots of the converter object graph and all mistune module globals around real calls: "
    "the dynamic footprint must be cache entries only, each equal to the model's pattern for its key.")
ASSUMPTIONS = [
    "the conversion proper touches persistent objects only through the caches (checked: static inventory + dynamic "
    "snapshot diff on generated histories, not proved about CPython code)",
    "thread clause: dict get/set on the caches are atomic under the GIL; state objects are per call (dynamic stress with "
    "8 threads supports, does not prove, this)"]
TRUSTED = ["tools/footprint_allow.txt (reviewed write inventory)", "tools/skeletons/core_*.txt, markdown_*.txt, init_*.txt"]


# ------------------------------------------------------------------ deep snapshot
def snapshot(roots):
    seen = {}

    def go(o, path, depth=0):
        if o is None or isinstance(o, (bool, int, float, str, bytes)):
            return o
        i = id(o)
        if i in seen:
            return "<ref %s>" % seen[i]
        if depth > 60:
            return "<deep>"
        seen[i] = path
        if isinstance(o, dict):
            return {"dict": sorted(((repr(k), go(v, path + "/" + repr(k), depth + 1)) for k, v in list(o.items())), key=lambda kv: kv[0])}
        if isinstance(o, (list, tuple)):
            return [type(o).__name__] + [go(x, path + "/%d" % j, depth + 1) for j, x in enumerate(list(o))]
        if isinstance(o, (set, frozenset)):
            return ["set"] + sorted(repr(x) for x in o)
        if isinstance(o, re.Pattern):
            return ("re", o.pattern, o.flags)
        if isinstance(o, types.ModuleType):
            return "<module %s>" % o.__name__
        if isinstance(o, (types.FunctionType, types.LambdaType)):
            cells = []
            if o.__closure__:
                for j, c in enumerate(o.__closure__):
                    try:
                        cells.append(go(c.cell_contents, path + "/cell%d" % j, depth + 1))
                    except ValueError:
                        cells.append("<empty>")
            return ("fn", o.__module__, o.__qualname__, cells, go(o.__defaults__, path + "/defaults", depth + 1))
        if isinstance(o, types.MethodType):
            return ("method", go(o.__func__, path + "/func", depth + 1), go(o.__self__, path + "/self", depth + 1))
        if isinstance(o, type):
            if getattr(o, "__module__", "").startswith("mistune"):
                return ("class", o.__qualname__, {"dict": sorted((k, go(v, path + "/" + k, depth + 1)) for k, v in list(vars(o).items())
                                                                 if not (k.startswith("__") and k.endswith("__")))})
            return "<class %s>" % o.__qualname__
        d = getattr(o, "__dict__", None)
        if d is not None:
            return ("obj", type(o).__qualname__, go(d, path + "/__dict__", depth + 1))
        return "<%s>" % type(o).__name__
    return go(roots, "")


def diff(a, b, path="", out=None, limit=40):
    out = [] if out is None else out
    if len(out) >= limit:
        return out
    if type(a) != type(b):
        out.append((path, "type"))
    elif isinstance(a, dict):
        da, db = dict(a["dict"]), dict(b["dict"])
        for k in sorted(set(da) | set(db)):
            if k not in da:
                out.append((path + "/" + k, "added"))
            elif k not in db:
                out.append((path + "/" + k, "removed"))
            else:
                diff(da[k], db[k], path + "/" + k, out, limit)
    elif isinstance(a, (list, tuple)):
        if len(a) != len(b):
            out.append((path, "length %d->%d" % (len(a), len(b))))
        else:
            for i, (x, y) in enumerate(zip(a, b)):
                diff(x, y, path + "/%d" % i, out, limit)
    elif a != b:
        out.append((path, "value"))
    return out


def module_roots():
    return {k: dict(vars(v)) for k, v in sorted(sys.modules.items()) if k == "mistune" or k.startswith("mistune.")}


# ------------------------------------------------------------------ converters
def converters(m):
    from mistune.directives import Admonition, Figure, FencedDirective, Image, Include, RSTDirective, TableOfContents
    from mistune.renderers.markdown import MarkdownRenderer
    from mistune.renderers.rst import RSTRenderer
    from mistune.toc import add_toc_hook

    def with_hook():
        md = m.create_markdown(plugins=["table", "footnotes"])
        add_toc_hook(md)
        return md
    P = gen_docs.ALL_PLUGINS
    return {
        "html-all": lambda: m.create_markdown(plugins=P + ["speedup"]),
        "html-core": lambda: m.create_markdown(),
        "html-noescape-hardwrap": lambda: m.create_markdown(escape=False, hard_wrap=True, plugins=["abbr", "footnotes", "url", "def_list"]),
        "ast-all": lambda: m.create_markdown(renderer=None, plugins=P),
        "rst": lambda: m.create_markdown(renderer=RSTRenderer()),
        "markdown": lambda: m.create_markdown(renderer=MarkdownRenderer()),
        "fenced-directives": lambda: m.create_markdown(plugins=["footnotes", FencedDirective([Admonition(), TableOfContents(), Image(), Figure(), Include()])]),
        "rst-directives": lambda: m.create_markdown(plugins=["math", "table", RSTDirective([Admonition(), TableOfContents(), Image(), Figure()])]),
        "colon-directives": lambda: m.create_markdown(plugins=[FencedDirective([Admonition(), TableOfContents()], ":")]),
        "toc-hook": with_hook,
        "html-table-url": lambda: m.create_markdown(plugins=["table", "url"]),
        "html-table-url-noescape": lambda: m.create_markdown(escape=False, plugins=["table", "url"]),
        "mistune.html-equivalent": lambda: m.create_markdown(escape=False, plugins=["strikethrough", "footnotes", "table", "speedup"]),
        # the same plugins in another order are another configuration (speedup looks at what is registered before it; abbr and
        # def_list insert themselves before rules that the other may or may not have added yet)
        "html-url-speedup": lambda: m.create_markdown(plugins=["url", "speedup"]),
        "html-speedup-url": lambda: m.create_markdown(plugins=["speedup", "url"]),
        "html-abbr-deflist": lambda: m.create_markdown(plugins=["abbr", "def_list"]),
        "html-deflist-abbr": lambda: m.create_markdown(plugins=["def_list", "abbr"]),
        # renderer options that are collections: every conversion must see the whole collection
        "html-allow-list": lambda: m.create_markdown(renderer=m.HTMLRenderer(allow_harmful_protocols=["data:", "file:"]), plugins=["url"]),
        "html-allow-tuple": lambda: m.create_markdown(renderer=m.HTMLRenderer(escape=False, allow_harmful_protocols=("data:text/", "vbscript:"))),
    }


STATEFUL = [
    "[ref]: /url 'T'\n\nsee [ref] and [other]\n", "[other]: /o\n\n[ref]\n", "text[^1] and[^n]\n\n[^1]: one\n[^n]: two\n",
    "again[^n] only\n\n[^n]: different\n", "*[HTML]: Hyper Text\n\nHTML is HTML\n", "HTML and W3C\n\n*[W3C]: Consortium\n",
    "Title\n=====\n\nSub\n---\n\n# atx\n", "![img](a.png) ![b](c.gif 't')\n", "```{toc}\n```\n\n# H1\n\nH2\n--\n", ".. toc::\n\n# A\n\nB\n=\n",
    "> - [ref]\n>\n> [ref]: /in-quote\n", "| a |\n|---|\n| [ref] |\n", "term\n: def [ref]\n", "- [ ] task\n- [x] done\n", "$$\nx\n$$\n\n$a$\n",
    # headings that use a label which only some documents define, with a table of contents (what an entry shows depends on the
    # definitions of its own document)
    "[ref]: /url\n\n# About [ref]\n\n```{toc}\n```\n", "# [ref] Road map\n\n```{toc}\n```\n\n## [other][] too\n", "[ref]: /u2\n[other]: /o2\n\n# T [ref]\n\n.. toc::\n",
    "# [ref] plans\n\n.. toc::\n\n## and [x][ref]\n", "# [ref] alone\n\n## [other] sub\n",
    ".. note:: T\n\n   .. tip:: U\n\n      deep\n", ":::{note} A\n::::{tip} B\ninner\n::::\n:::\n",
    ".. note:: 1\n\n   .. note:: 2\n\n      .. note:: 3\n\n         .. note:: 4\n\n            .. note:: 5\n\n               .. note:: 6\n\n                  .. note:: 7\n\n                     x\n",
    "::::::::{note} 1\n:::::::{note} 2\n::::::{note} 3\n:::::{note} 4\n::::{note} 5\n:::{note} 6\nx\n:::\n::::\n:::::\n::::::\n:::::::\n::::::::\n",
]


ORDER_DOCS = ["see https://example.com/page now\n", "*[W3C]: World Wide Web\n\nthe W3C\n", "W3C\n: the *consortium* http://w3.org\n\n*[W3C]: World\n", "term\n*[K]: v\n: def K\n",
              "plain\n"]
LINK_DOCS = ["[a](/plain) then [d](data:text/plain,x)\n", "[f](file:///etc/hosts) ![i](data:image/png;base64,AA==)\n", "<data:text/html,hi> and [j](javascript:x)\n",
             "[r]\n\n[r]: data:text/csv,1 'T'\n", "![p](file:/p.png) [v](vbscript:q) [D](DATA:text/plain,y)\n", "plain text only\n", "[k](https://e.x/) [d2](data:,z)\n"]


def history_docs(r, k, config=None):
    docs = []
    pool = STATEFUL
    if config and config.startswith("html-allow"):
        return [r.choice(LINK_DOCS) if r.random() < 0.7 else r.choice(STATEFUL) for _ in range(k)]
    if config and "directives" in config:
        pool = [d for d in STATEFUL if ("{" in d or ".. " in d or "===" in d or "---" in d or "--\n" in d)]
    for _ in range(k):
        if config == "fenced-directives" and r.random() < 0.4:
            docs.append(r.choice(FILE_DOCS))      # pages that include the same files, with definitions of their own
        elif r.random() < 0.55:
            docs.append(r.choice(pool))
        else:
            docs.append(gen_docs.doc(r, plugins=gen_docs.ALL_PLUGINS, directives=r.random() < 0.3, max_blocks=4))
    return docs


FILE = "\x00FILE\x00"     # a history entry that begins with this marker is converted with a file context (Markdown.read)
FILE_DOCS = [FILE + "[home]: /en/\n\n```{include} nav.md\n```\n\n```{toc}\n```\n", FILE + "[home]: /fr/ 'T'\n\n```{include} nav.md\n```\n\n*[HTML]: Hyper\n",
             FILE + "```{include} nav.md\n```\n\n```{include} heads.md\n```\n\n# own [home]\n", FILE + "```{include} heads.md\n```\n\n```{include} heads.md\n```\n\n```{toc}\n```\n",
             FILE + "> ```{include} deep.md\n> ```\n\n[inc]\n", FILE + "```{include} part.md\n```\n\n```{include} data.txt\n```\n"]


def safe_call(md, d):
    try:
        if d.startswith(FILE):
            import worker
            out = worker.convert_file(md, d[len(FILE):])
        else:
            out = md(d)
        return out if isinstance(out, str) else json.dumps(out, sort_keys=True, default=repr)
    except Exception as e:  # noqa
        return "EXC:%s" % type(e).__name__


def sc_entries(md):
    out = []
    for pname in ("block", "inline"):
        p = getattr(md, pname)
        sc = getattr(p, "_Parser__sc")
        for key, pat in list(sc.items()):
            out.append((pname, key, pat.pattern, list(p.rules), [[k, v] for k, v in p.specification.items()]))
    return out


def correspondence(ctx):
    m = ctx.mistune
    r = ctx.rng("corr")
    convs = converters(m)
    reqs, meta, dis = [], [], []
    nsnap = 0
    allowed = re.compile(r"^/'md'/.*/'_Parser__sc'/|^/'mods'/'mistune'/'_mistune__cached_parsers'|^/'mods'/'mistune\.plugins'/'_cached_modules'")
    for name, mk in convs.items():
        for rep in range(ctx.n(3, 25)):
            md = mk()
            docs = history_docs(r, r.randint(2, 5))
            for d in docs:
                before = snapshot({"md": md, "mods": module_roots()})
                safe_call(md, d)
                after = snapshot({"md": md, "mods": module_roots()})
                nsnap += 1
                for path, what in diff(before, after):
                    if not allowed.search(path) or what in ("removed", "value", "type"):
                        dis.append({"input": {"config": name, "docs": docs, "doc": d}, "what": "persistent write outside the caches",
                                    "model": "only cache insertions", "impl": [path, what]})
            for pname, key, pat, rules, spec in sc_entries(md):
                reqs.append(("sc_pattern", [rules, spec, None if key == "$" else key.split("|")]))
                meta.append((name, pname, key, pat))
            if len(dis) > 10:
                break
    res = run_model(reqs) if reqs else []
    for (name, pname, key, pat), mv in zip(meta, res):
        if mv != pat:
            dis.append({"input": {"config": name, "parser": pname, "key": key}, "what": "cache entry is not the pure function of its key",
                        "model": mv[:200], "impl": pat[:200]})
    return {"evaluations": nsnap + len(reqs), "disagreements": dis[:20], "snapshots": nsnap, "cache_entries_checked": len(reqs),
            "samples": [json.dumps(meta[0][:3]) if meta else "none"]}


class Pristine:
    """client of tools/pristine.py"""

    def __init__(self):
        import os
        import subprocess
        from common import PY, impl_env
        here = os.path.dirname(os.path.dirname(os.path.abspath(__file__)))
        self.p = subprocess.Popen([PY, os.path.join(here, "pristine.py")], stdin=subprocess.PIPE, stdout=subprocess.PIPE,
                                  env=impl_env(), text=True, encoding="utf-8", errors="surrogatepass")

    def ref(self, config, doc, use=()):
        self.p.stdin.write(json.dumps({"config": config, "doc": doc, "use": list(use)}) + "\n")
        self.p.stdin.flush()
        line = self.p.stdout.readline()
        if not line:
            raise RuntimeError("pristine server died")
        return json.loads(line)

    def close(self):
        try:
            self.p.stdin.close()
            self.p.wait(timeout=10)
        except Exception:  # noqa
            self.p.kill()


_PRISTINE = None


def pristine():
    global _PRISTINE
    if _PRISTINE is None:
        _PRISTINE = Pristine()
    return _PRISTINE


def check_history(m, name, mk, docs, fails, late_use=None):
    md = mk()
    got = []
    for i, d in enumerate(docs):
        if late_use is not None and i == late_use[0]:
            md.use(m.plugins.import_plugin(late_use[1]))
        got.append(safe_call(md, d))
    for i, d in enumerate(docs):
        # reference: a fresh converter in a forked copy of a process that never converted anything
        want = pristine().ref(name, d, [late_use[1]] if (late_use is not None and i >= late_use[0]) else [])
        if want != got[i]:
            fails.append({"input": {"config": name, "docs": docs, "index": i, "late_use": late_use}, "kind": "history-dependent",
                          "expected": want[:1500], "got": got[i][:1500]})
            return


def oracle(ctx, extra):
    m = ctx.mistune
    r = ctx.rng("oracle")
    convs = converters(m)
    fails = []
    n = 0
    for e in extra:
        if isinstance(e, dict) and "docs" in e and e.get("config") in convs:
            check_history(m, e["config"], convs[e["config"]], e["docs"], fails, e.get("late_use"))
    names = list(convs)
    for _ in range(ctx.n(250, 6000)):
        name = r.choice(names)
        docs = history_docs(r, r.randint(2, 6), name)
        late = None
        if name in ("html-core",) and r.random() < 0.5:
            late = (r.randint(1, len(docs) - 1), r.choice(["table", "footnotes", "strikethrough", "url", "math", "def_list"]))
        check_history(m, name, convs[name], docs, fails, late)
        n += len(docs)
        if len(fails) >= 5:
            break
    # the shared module-level converters
    shared = 0
    if len(fails) < 5:
        for _ in range(ctx.n(30, 400)):
            docs = history_docs(r, r.randint(2, 5))
            for d in docs:
                want = pristine().ref("mistune.html-equivalent", d)
                got = safe_call(m.html, d)
                w2 = pristine().ref("html-core", d)
                try:
                    g2 = m.markdown(d)
                except Exception as e:  # noqa
                    g2 = "EXC:%s" % type(e).__name__
                shared += 2
                if want != got or w2 != g2:
                    fails.append({"input": {"config": "mistune.html / mistune.markdown()", "docs": docs, "doc": d}, "kind": "shared-converter-history",
                                  "expected": [want[:600], w2[:600]], "got": [got[:600], g2[:600]]})
                    break
                # the plugins argument of the shortcut is any iterable: a list, a tuple, a one-shot generator, in any order of calls
                # the plugins argument of the shortcut is any iterable: lists and tuples under one cache key, one-shot iterables under another
                # the same set of plugins listed in another order is another converter
                for cfgname, order in (("html-url-speedup", ["url", "speedup"]), ("html-speedup-url", ["speedup", "url"]), ("html-abbr-deflist", ["abbr", "def_list"]),
                                       ("html-deflist-abbr", ["def_list", "abbr"]), ("html-speedup-url", ("speedup", "url")), ("html-url-speedup", ["url", "speedup"])):
                    for d4 in (d, ORDER_DOCS[shared % len(ORDER_DOCS)]):
                        w4 = pristine().ref(cfgname, d4)
                        try:
                            g4 = m.markdown(d4, plugins=order)
                        except Exception as e:  # noqa
                            g4 = "EXC:%s" % type(e).__name__
                        shared += 1
                        if g4 != w4:
                            fails.append({"input": {"config": "mistune.markdown(plugins=%r)" % (order,), "docs": docs, "doc": d4}, "kind": "shared-converter-history",
                                          "expected": [w4[:600]], "got": [g4[:600]]})
                            break
                for cfgname, esc, forms in (("html-table-url", True, [lambda: ["table", "url"], lambda: ("table", "url")]),
                                            ("html-table-url-noescape", False, [lambda: (p for p in ["table", "url"]), lambda: iter(["table", "url"]), lambda: ["table", "url"]])):
                    w3 = pristine().ref(cfgname, d)
                    for mkp in forms:
                        try:
                            g3 = m.markdown(d, escape=esc, plugins=mkp())
                        except Exception as e:  # noqa
                            g3 = "EXC:%s" % type(e).__name__
                        shared += 1
                        if g3 != w3:
                            fails.append({"input": {"config": "mistune.markdown(escape=%s, plugins=<iterable>)" % esc, "docs": docs, "doc": d}, "kind": "shared-converter-history",
                                          "expected": [w3[:600]], "got": [g3[:600]]})
                            break
            if len(fails) >= 5:
                break
    # threads on a shared instance
    tcount = 0
    if len(fails) < 5:
        for name in ("html-all", "fenced-directives", "rst-directives", "rst", "toc-hook"):
            md = convs[name]()
            docs = history_docs(r, 24)
            if "directives" in name:
                # long documents with a table of contents: their block and render phases overlap between threads
                style = "```{toc}\n```\n" if name.startswith("fenced") else ".. toc::\n"
                # the directive stands at the start, in the middle or at the end, so that whatever a conversion keeps between
                # reading the directive and rendering it is exposed to the other threads for a long, a medium or a short time
                for j in range(24):
                    if j % 4 != 3:
                        secs = ["# H%d-%d\n\ntext *%d*\n\n## S%d\n\n- a\n- b\n\n" % (j, i, i, i) for i in range(120)]
                        at = (0, 60, 120)[j % 3]
                        docs[j] = "".join(secs[:at]) + style + "\n" + "".join(secs[at:]) + "# end %d\n" % j
            want = [pristine().ref(name, d) for d in docs]
            got = [None] * len(docs)

            def work(j):
                for _ in range(ctx.n(3, 20)):
                    for i in range(j, len(docs), 8):
                        g = safe_call(md, docs[i])
                        if got[i] is None or got[i] == want[i]:      # keep the first differing result of any repetition
                            got[i] = g
            old = sys.getswitchinterval()
            sys.setswitchinterval(1e-5)
            try:
                ts = [threading.Thread(target=work, args=(j,)) for j in range(8)]
                [t.start() for t in ts]
                [t.join() for t in ts]
            finally:
                sys.setswitchinterval(old)
            tcount += len(docs)
            for i, d in enumerate(docs):
                if got[i] != want[i]:
                    fails.append({"input": {"config": name, "docs": docs, "index": i}, "kind": "concurrent-call-differs",
                                  "expected": want[i][:800], "got": (got[i] or "")[:800]})
                    break
    pristine().close()
    return {"evaluations": n + shared + tcount, "distinct_nontrivial": n, "failures": fails,
            "rule": "histories of 2-6 documents (55% from a list that exercises reference links, footnotes, abbreviations, "
                    "setext/atx headings with toc hook/directive, images with the RST renderer, nested directives up to the "
                    "depth limit; 45% generated; for the fenced-directive configuration 40% pages converted with a file context that include the same Markdown files and define the references those files use) on one converter vs a fresh converter per document in a forked pristine process (so module-level leaks show too), for 11 configurations; "
                    "md.use(plugin) in the middle of a history; the shared mistune.html and cached mistune.markdown(); 8 "
                    "threads on a shared instance with a 10us switch interval (for the directive configurations three quarters of the documents are long, with a table of contents at the start, in the middle or at the end); non-trivial = every history (length >= 2)",
            "samples": [json.dumps(history_docs(r, 2))]}


def replay(ctx, case):
    c = case.get("case", case)
    m = ctx.mistune
    convs = converters(m)
    fails = []
    inp = c["input"]
    if inp.get("config") in convs:
        check_history(m, inp["config"], convs[inp["config"]], inp["docs"], fails, inp.get("late_use"))
    return fails[0] if fails else None
