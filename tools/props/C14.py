"""C14 — footnote references and notes stay in bijection."""
import json
import re

from common import run_model

ID = "C14"
LEVEL = "proof"
GEN = ["FootnoteGen", "UtilGen"]
COQ = ["Props/C14.vo"]
EXPLANATION = (
    "Theorem C14_bijection (coq/Props/C14.v), for every history of inline references and every set of defined keys: the "
    "note list is the duplicate-free list of defined referenced keys in order of first reference; every reference to a "
    "defined key carries the 1-based position of its key (repeats reuse it, different keys get different numbers), "
    "references to undefined keys stay literal, every emitted item n is referenced by a token numbered n and vice versa, "
    "unreferenced definitions are not emitted, and there is one section iff something was referenced. The id strings fn-N and "
    "fnref-N are injective in N and the two families never meet (C14_id_strings_distinct, Proofs/DecimalProofs.v). The numbering code "
    "(parse_inline_footnote, md_footnotes_hook) is tied by committed control skeletons + key constants; id/href prefixes "
    "are regenerated from the render templates (C14_tie_targets: href = '#' + id of the partner).")
ASSUMPTIONS = [
    "references are numbered in the order the inline parser meets them; that this is document order, and that label "
    "normalisation is unikey (C18), is validated by the correspondence run on generated documents (refs in paragraphs, "
    "quotes, lists, tables, emphasis, link text, headings)",
    "hand model of the numbering loop (Model/Footnote.v), tied by skeleton comparison and correspondence"]
TRUSTED = ["tools/skeletons/fn_*.txt"]

KEYS = ["1", "n", "Note", "a b", "x-y", "Z", "k9", "long key"]
UNDEF = ["nope", "0", "missing one"]
WORD = {k: "W%dw" % i for i, k in enumerate(KEYS)}


def _variant(r, k):
    """a spelling of key k that unikey maps to the same key"""
    v = r.random()
    if v < 0.5:
        return k
    if v < 0.7:
        return k.upper()
    if v < 0.85:
        return k.lower()
    return k.replace(" ", "  ") if " " in k else k.swapcase()


def gen_case(r):
    defs = r.sample(KEYS, r.randint(0, 5))
    hist = []
    for _ in range(r.randint(0, 9)):
        hist.append(r.choice(defs + defs + UNDEF) if defs else r.choice(UNDEF + KEYS[:2]))
    placements = []
    blocks = []
    i = 0
    while i < len(hist):
        take = r.randint(1, 3)
        refs = hist[i:i + take]
        i += take
        how = r.choice(["p", "p", "quote", "list", "table", "em", "link", "heading", "strong", "nested", "em-link", "em-link", "em-code", "strong-em-link"])
        # what follows a reference directly: nothing, punctuation, or the opening of another construct (for defined notes only:
        # an undefined reference followed by a parenthesis is an ordinary link by CommonMark's rules)
        def around(k):
            # what stands directly in front of and behind a reference: nothing, punctuation, or the opening of another construct
            # ("![" opens an image, "](" a destination).  Behind: for defined notes only (an undefined reference followed by a
            # parenthesis is an ordinary link by CommonMark's rules); "![^a](x)" is an image, so not both at once
            pre = r.choice(["", "", "", "!", "!", "?", ".", ")"])
            post = r.choice(["", "", "", "(see there)", "(x)", "[y]", ":", "!", "(/u 't')"]) if (k in defs and pre != "!") else ""
            return pre + "[^%s]" % _variant(r, k) + post
        spell = [around(k) for k in refs]
        body = " and ".join("t%d%s" % (len(blocks), s) for s in spell)
        # references before and inside a link that sits inside emphasis (the parser looks ahead at such links before it
        # has parsed the text in front of them), optionally with a code span that takes precedence over the emphasis
        head = "t%d%s" % (len(blocks), spell[0])
        tail = " and ".join("u%d%s" % (len(blocks), s) for s in spell[1:]) or "v"
        if how == "p":
            blocks.append("para %s end\n" % body)
        elif how == "quote":
            blocks.append("> quoted %s\n> more\n" % body)
        elif how == "list":
            blocks.append("- item %s\n- other\n" % body)
        elif how == "table":
            blocks.append("| h | g |\n|---|---|\n| %s | c |\n" % body)
        elif how == "em":
            blocks.append("some *emph %s done* text\n" % body)
        elif how == "strong":
            blocks.append("some **strong %s** text\n" % body)
        elif how == "link":
            blocks.append("a [link %s text](/url) here\n" % body)
        elif how == "heading":
            blocks.append("## head %s\n" % body)
        elif how == "em-link":
            mk = r.choice(["*", "_", "**"])
            blocks.append("%ssee %s and [link %s](/u)%s%s after\n" % (mk, head, tail, r.choice(["", " `c`"]), mk))
        elif how == "em-code":
            blocks.append("*a %s [x %s](/u) `c* d` e\n" % (head, tail))
        elif how == "strong-em-link":
            blocks.append("**s %s *e [l %s](/u) f* g** h\n" % (head, tail))
        else:
            blocks.append("1. > - deep %s\n" % body)
        placements.append(how)
    # definitions: single/multi paragraph, duplicates (first wins), unreferenced, case variants, nested placement
    dblocks = []
    for k in defs:
        style = r.choice(["single", "single", "multi", "cont"])
        lab = _variant(r, k)
        if style == "single":
            g = "[^%s]: %s text\n" % (lab, WORD[k])
        elif style == "multi":
            g = "[^%s]: %s first\n\n   second para\n" % (lab, WORD[k])
        else:
            g = "[^%s]: %s line\n   continued\n" % (lab, WORD[k])
        if r.random() < 0.3 and len(defs) > 1:   # a note whose text mentions another note
            g = g.rstrip("\n") + " see [^%s]\n" % _variant(r, r.choice(defs))
        if r.random() < 0.25:   # a later duplicate must be ignored (first wins)
            g += "\n[^%s]: DUPLICATE%s\n" % (_variant(r, k), WORD[k])
        dblocks.append(g)
    r.shuffle(dblocks)
    # some definitions before the body, some after
    cut = r.randint(0, len(dblocks))
    parts = dblocks[:cut] + blocks + dblocks[cut:]
    doc = ""
    for i, part in enumerate(parts):
        # a definition may follow a paragraph line directly, without a blank line (it interrupts the paragraph)
        glued = i > 0 and part.startswith("[^") and parts[i - 1].startswith("para ") and r.random() < 0.5
        doc += ("" if (i == 0 or glued) else "\n") + part
    return {"defs": defs, "hist": hist, "doc": doc, "placements": placements}


REF_RE = re.compile(r'<sup class="footnote-ref" id="fnref-(\d+)"><a href="#fn-(\d+)">(\d+)</a></sup>|\[\^([^\]]*)\]')
ITEM_RE = re.compile(r'<li id="fn-(\d+)">(.*?)<a href="#fnref-(\d+)" class="footnote">&#8617;</a></p></li>\n', re.S)


# the plugin lists the documents are converted with: numbering must not depend on which other plugins are loaded, nor on the
# position of footnotes among them
PLUGIN_LISTS = [["footnotes", "table"], ["speedup", "footnotes", "table"], ["footnotes", "table", "speedup"],
                ["table", "strikethrough", "speedup", "footnotes", "url"], ["footnotes", "table", "url", "task_lists", "def_list", "abbr"],
                ["table", "footnotes"]]


def plugins_of(doc):
    return PLUGIN_LISTS[(sum(map(ord, doc)) // 3) % len(PLUGIN_LISTS)]


def cli_html(doc, plugins):
    """the same conversion through the command line tool: python -m mistune -p <plugins>, document on standard input"""
    import subprocess
    from common import PY, impl_env
    p = subprocess.run([PY, "-m", "mistune", "-p"] + list(plugins), env=impl_env({"PYTHONIOENCODING": "utf-8"}), timeout=120, input=doc,
                       stdout=subprocess.PIPE, stderr=subprocess.PIPE, text=True, encoding="utf-8")
    if p.returncode != 0:
        raise RuntimeError("python -m mistune exited with %s: %s" % (p.returncode, p.stderr[-300:]))
    return p.stdout[:-1] if p.stdout.endswith("\n") else p.stdout     # (the tool prints the result and a newline)


def observe_html(m, doc, cli=False):
    if cli:
        out = cli_html(doc, plugins_of(doc))
    else:
        md = m.create_markdown(plugins=plugins_of(doc))
        if sum(map(ord, doc)) % 3 == 0:
            # a TOC hook parses heading texts once more, before the inline pass of the document: numbering must not notice
            from mistune.toc import add_toc_hook
            add_toc_hook(md, 1, 6)
        out = md(doc)
    sec = out.count('<section class="footnotes">')
    body, _, tail = out.partition('<section class="footnotes">')
    refs = []
    for mm in REF_RE.finditer(body):
        if mm.group(1) is not None:
            refs.append((int(mm.group(1)), int(mm.group(2)), int(mm.group(3))))
        else:
            refs.append(None)
    items = [(int(a), b, int(c)) for a, b, c in ITEM_RE.findall(tail)]
    return {"out": out, "sections": sec, "refs": refs, "items": items, "tail": tail,
            "section_last": (sec == 0) or out.endswith("</ol>\n</section>\n")}


def observe_ast(m, doc):
    md = m.create_markdown(renderer=None, plugins=plugins_of(doc))
    toks = md(doc)
    refs = []

    def walk(ts):
        for t in ts:
            if t["type"] == "footnote_ref":
                refs.append((t["attrs"]["index"], t["raw"]))
            elif t["type"] == "text" and "raw" in t:
                for _ in re.findall(r"\[\^[^\]]*\]", t["raw"]):
                    refs.append(None)
            if "children" in t and t["type"] != "footnotes":
                walk(t["children"])
    walk(toks)
    secs = [t for t in toks if t["type"] == "footnotes"]
    items = []
    for s in secs:
        for it in s["children"]:
            items.append((it["attrs"]["index"], it["attrs"]["key"]))
    return {"refs": refs, "items": items, "sections": len(secs), "section_last": not secs or toks[-1]["type"] == "footnotes"}


def correspondence(ctx):
    m = ctx.mistune
    r = ctx.rng("corr")
    cases = [gen_case(r) for _ in range(ctx.n(800, 20000))]
    keyf = m.unikey
    reqs = [("fn_number", [[keyf(k) for k in c["defs"]], [keyf(k) for k in c["hist"]]]) for c in cases]
    res = run_model(reqs)
    dis = []
    for c, mv in zip(cases, res):
        toks, notes, strs = mv
        try:
            oh = observe_html(m, c["doc"])
            oa = observe_ast(m, c["doc"])
        except Exception as e:  # noqa
            dis.append({"input": c, "impl": "EXC %s: %s" % (type(e).__name__, e)})
            continue
        impl_h = [x[2] if x else None for x in oh["refs"]]
        impl_a = [x[0] if x else None for x in oa["refs"]]
        items_a = [k for (_i, k) in oa["items"]]
        if impl_h != toks or impl_a != toks or items_a != notes or len(oh["items"]) != len(notes) \
                or strs != ["fnref-", "#fn-", "fn-", "#fnref-"]:
            dis.append({"input": c, "model": [toks, notes], "impl": [impl_h, impl_a, items_a, len(oh["items"])]})
            if len(dis) > 20:
                break
    return {"evaluations": len(cases), "disagreements": dis,
            "histogram": {"refs": sum(len(c["hist"]) for c in cases), "with_undefined": sum(1 for c in cases if any(k in UNDEF for k in c["hist"])),
                          "with_repeats": sum(1 for c in cases if len(set(c["hist"])) < len(c["hist"]))},
            "samples": [json.dumps(cases[0]["doc"])]}


def check_case(m, c, fails, cli=False):
    """C14 stated directly on the output, independent of the model"""
    keyf = m.unikey
    try:
        oh = observe_html(m, c["doc"], cli)
        oa = observe_ast(m, c["doc"])
    except Exception as e:  # noqa
        fails.append({"input": c, "kind": "exception", "got": "%s: %s" % (type(e).__name__, e)})
        return
    defs = {keyf(k) for k in c["defs"]}
    hist = [keyf(k) for k in c["hist"]]
    order = []
    for k in hist:
        if k in defs and k not in order:
            order.append(k)
    n = len(order)

    def bad(kind, **kw):
        d = {"input": c, "kind": kind, "html": oh["out"], "through": "python -m mistune -p " + " ".join(plugins_of(c["doc"])) if cli else "create_markdown"}
        d.update(kw)
        fails.append(d)
    if len(oh["refs"]) != len(hist):
        return bad("reference-count", got=oh["refs"], expected=len(hist))
    for k, ref in zip(hist, oh["refs"]):
        if k in defs:
            want = order.index(k) + 1
            if ref is None or ref != (want, want, want):
                return bad("reference-number", key=k, got=ref, expected=want)
        elif ref is not None:
            return bad("undefined-not-literal", key=k, got=ref)
    if oh["sections"] != (1 if n else 0) or not oh["section_last"]:
        return bad("section-count-or-position", got=oh["sections"])
    if [(a, c2) for (a, _b, c2) in oh["items"]] != [(i + 1, i + 1) for i in range(n)]:
        return bad("items", got=[(a, c2) for (a, _b, c2) in oh["items"]], expected=n)
    for (a, body, _c), k in zip(oh["items"], order):
        orig = [x for x in c["defs"] if keyf(x) == k][0]
        if WORD[orig] not in body or "DUPLICATE" in body:
            return bad("item-text", key=k, got=body)
    if n and oh["tail"].count("<li id=") != n:
        return bad("extra-items", got=oh["tail"])
    # every link target exists (also for references that appear inside note texts)
    out = oh["out"]
    for k in set(re.findall(r'href="#fn-(\d+)"', out)):
        if ('<li id="fn-%s">' % k) not in out:
            return bad("dangling-reference", got="#fn-" + k)
    for k in set(re.findall(r'href="#fnref-(\d+)"', out)):
        if ('id="fnref-%s"' % k) not in out:
            return bad("dangling-backlink", got="#fnref-" + k)
    # token list output carries the same notes
    if [x[0] if x else None for x in oa["refs"]] != [x[2] if x else None for x in oh["refs"]] \
            or oa["items"] != [(i + 1, k) for i, k in enumerate(order)] or oa["sections"] != (1 if n else 0) \
            or not oa["section_last"]:
        return bad("token-list-differs", got=[oa["refs"], oa["items"], oa["sections"]])


def oracle(ctx, extra):
    m = ctx.mistune
    r = ctx.rng("oracle")
    fails = []
    cases = [e for e in extra if isinstance(e, dict) and "doc" in e] + [gen_case(r) for _ in range(ctx.n(1500, 40000))]
    n = 0
    ncli = 0
    for i, c in enumerate(cases):
        n += 1
        check_case(m, c, fails)
        if i % ctx.n(60, 200) == 7 and c["doc"].strip():
            # the command line tool builds its converter from the same plugin names: the notes it prints obey the same rules
            ncli += 1
            check_case(m, c, fails, cli=True)
        if len(fails) >= 5:
            break
    return {"evaluations": n, "distinct_nontrivial": len({c["doc"] for c in cases[:n] if c["hist"] and c["defs"]}),
            "failures": fails,
            "rule": "abstract history (0-9 references to defined/undefined keys, case/space variants of labels) + definition "
                    "set (single/multi-paragraph, continuation lines, duplicates, unreferenced, before/after the body) "
                    "printed as a document with references in paragraphs, quotes, lists, tables, emphasis, strong, link "
                    "text, headings, nested containers; half of the definitions that follow a paragraph follow it without a blank line; converted with six plugin lists (footnotes first, last, in the middle; with and without speedup, url, task_lists, def_list, abbr); every clause of C14 checked on the HTML and on the token list, and for a sample of the documents on what python -m mistune -p <the same plugins> prints; "
                    "non-trivial = has at least one definition and one reference; distinct by document text",
            "samples": [json.dumps(cases[0]["doc"]), json.dumps(cases[1]["hist"])]}


def replay(ctx, case):
    c = case.get("case", case)
    fails = []
    check_case(ctx.mistune, c["input"], fails, cli=str(c.get("through", "")).startswith("python"))
    return fails[0] if fails else None
