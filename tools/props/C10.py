"""C10 — a plugin only affects documents that use its syntax."""
import json
import os
import re

import corr_rx
import gen_docs
from common import run_model

ID = "C10"
LEVEL = "proof"
GEN = ["PluginGen", "RxGen", "UnicodeGen"]
COQ = ["Props/C10.vo"]
EXPLANATION = (
    "Theorems in coq/Props/C10.v: for every rule pattern a built-in plugin registers (regenerated from "
    "create_markdown(plugins=[p]) for each p) and each character c the specification tools/spec/triggers.json names for it, "
    "the verified must-consume analysis shows every match of the pattern needs c somewhere in the subject "
    "(C10_rules_need_their_triggers, by reflection); hence (C10_plugin_rule_is_local) inserting the rule at ANY priority "
    "into ANY rule list leaves every scan (search and match, any window) of every c-free text unchanged - unbounded in "
    "text length and independent of the other plugins. This rests on RxSpec.m_spec (engine sound and complete for the "
    "declarative regex semantics). Tie: patterns regenerated through CPython's re._parser; engine conformance run; the "
    "scan model (ordered first-match) is compared with the real compiled scanner of converters with random plugin sets.")
ASSUMPTIONS = [
    "texts handed to the scanners for nested content (quote/list/cell text, inline children) contain only characters of "
    "the document plus space/newline: not proved here (needs the full parser model); covered by the differential oracle",
    "handlers a plugin replaces (spoiler's block_quote, abbr's process_text, FencedDirective's fenced_code) and hooks "
    "(task_lists, footnotes) are inert without their trigger: validated by the differential oracle, not proved",
    "sc.search on the combined alternation equals ordered first-match over the rules (validated by the scan correspondence)"]
TRUSTED = ["tools/spec/triggers.json (part of the statement)", "CPython's re._parser as the regex front end"]


def _trig():
    p = os.path.join(os.path.dirname(os.path.dirname(os.path.abspath(__file__))), "spec", "triggers.json")
    with open(p) as f:
        d = json.load(f)
    d.pop("comment", None)
    return d


def _mk(m, name):
    from mistune.directives import Admonition, FencedDirective, RSTDirective, TableOfContents
    if name == "rst_directive":
        return RSTDirective([Admonition(), TableOfContents()])
    if name == "fenced_directive":
        return FencedDirective([Admonition(), TableOfContents()])
    if name == "fenced_directive_colon":
        return FencedDirective([Admonition(), TableOfContents()], ":")
    return name


def _strip(doc, chars):
    for c in chars:
        doc = doc.replace(c, "")
    return doc


def correspondence(ctx):
    import translate
    m = ctx.mistune
    r = ctx.rng("corr")
    pats = translate.all_patterns()
    n1, dis, stats = corr_rx.conformance(ctx, pats, ctx.n(250, 3000), ctx.n(60, 1200), tag="C10rx")
    # scan model vs the real compiled scanners, random plugin sets
    name_of = {}
    for nm, pat, fl in pats:
        name_of[(pat, fl)] = nm
    reqs, meta = [], []
    for _ in range(ctx.n(25, 300)):
        plugins = r.sample(gen_docs.ALL_PLUGINS, r.randint(0, 6))
        md = m.create_markdown(plugins=plugins, hard_wrap=r.random() < 0.3)
        for parser, fl in ((md.block, re.M), (md.inline, 0)):
            rules = list(parser.rules)
            try:
                names = [name_of[(parser.specification[x], fl)] for x in rules]
            except KeyError:
                continue
            sc = parser.compile_sc()
            for _ in range(ctx.n(12, 60)):
                doc = gen_docs.doc(r, plugins=plugins, max_blocks=3) if r.random() < 0.7 else gen_docs.noise(r, 1, 40)
                pos = r.randint(0, max(0, len(doc) - 1))
                mode = 1 if r.random() < 0.8 else 0
                reqs.append(("scan", [names, mode, doc, pos, len(doc)]))
                meta.append((sc, rules, names, mode, doc, pos))
    res = run_model(reqs, timeout=3000)
    for (sc, rules, names, mode, doc, pos), mv in zip(meta, res):
        mm = (sc.search if mode else sc.match)(doc, pos)
        iv = None if mm is None else [names[rules.index(mm.lastgroup)], mm.start(), mm.end()]
        mv2 = None if mv is None else [mv[0], mv[1][0], mv[1][1]]
        if iv != mv2:
            dis.append({"input": doc, "what": "scan", "rules": rules, "pos": pos, "mode": mode, "model": mv2, "impl": iv})
            if len(dis) > 30:
                break
    return {"evaluations": n1 + len(reqs), "disagreements": dis, "engine_conformance_evaluations": n1, "scan_evaluations": len(reqs),
            "patterns": len(pats), "samples": [json.dumps(reqs[0][1][2:4]) if reqs else "none"]}


def check_one(m, plugin, others, doc, hard_wrap, escape, fails):
    a = m.create_markdown(plugins=[_mk(m, x) for x in others], hard_wrap=hard_wrap, escape=escape)
    b = m.create_markdown(plugins=[_mk(m, x) for x in others] + [_mk(m, plugin)], hard_wrap=hard_wrap, escape=escape)
    try:
        wa = a(doc)
    except Exception:  # C01's business
        return False
    try:
        wb = b(doc)
    except Exception as e:  # noqa
        wb = "EXC:%s: %s" % (type(e).__name__, e)
    if wa != wb:
        fails.append({"input": doc, "plugin": plugin, "others": others, "hard_wrap": hard_wrap, "escape": escape,
                      "kind": "plugin-changes-trigger-free-document", "expected": wa[:1500], "got": wb[:1500]})
    return True


# plugins that take over the handler of a core construct, and the markers of that construct
HOSTS = {"spoiler": [">", ">>", "> -", "- >", "> 1.", "> >"], "task_lists": ["-", "*", "+", "1.", "- -", "> -"],
         "fenced_directive": ["-", ">", "1."], "def_list": ["-", ">"]}


def oracle(ctx, extra):
    m = ctx.mistune
    r = ctx.rng("oracle")
    trig = _trig()
    plugins = list(trig)
    fails = []
    n = 0
    nontriv = set()
    base_plugins = [p for p in gen_docs.ALL_PLUGINS]
    # when the translator rejected a plugin's registration, search there first
    focus = [p for p in plugins if any((" " + p + " ") in (" " + e.replace(":", " ") + " ") for e in ctx.gen_errors)]
    for i in range(ctx.n(2500, 60000)):
        p = plugins[i % len(plugins)]
        if focus and i % 5 != 0:
            p = focus[i % len(focus)]
        # one essential character per rule of the plugin is removed from the document
        remove = [r.choice(list(chars)) for chars in trig[p].values()]
        others = [x for x in r.sample(base_plugins + ["rst_directive", "fenced_directive"], r.randint(3, 9) if focus else r.randint(0, 5))
                  if x != p and not (x.startswith("fenced") and p.startswith("fenced"))]
        k = r.random()
        if extra and i < len(extra) and isinstance(extra[i], str):
            doc = extra[i]
        elif p in HOSTS and r.random() < 0.5:
            # the plugin replaces the handler of a core construct: documents full of that construct (without the trigger)
            doc = gen_docs.tab_doc(r, HOSTS[p]) if r.random() < 0.6 else gen_docs.edge_doc(r)
        elif k < (0.6 if focus else 0.25):
            doc = gen_docs.interaction_doc(r)
        elif k < 0.75:
            doc = gen_docs.doc(r, plugins=gen_docs.ALL_PLUGINS, directives=r.random() < 0.3)
        elif k < 0.85:
            doc = gen_docs.mutate(r, gen_docs.doc(r, plugins=gen_docs.ALL_PLUGINS))
        elif k < 0.93:
            doc = gen_docs.tab_doc(r)
        else:
            doc = gen_docs.noise(r)
        doc = _strip(doc, remove)
        if i % 6 == 2 and doc:
            # characters that are legitimate but that no syntax names: control characters, the replacement character, a byte-order mark,
            # a non-character - in the middle of the text (a text hook that one plugin replaces must keep treating them like the core does)
            at = r.randrange(len(doc))
            doc = doc[:at] + r.choice(["\x00", "\x7f", "\ufffd", "\ufeff", "\x01", "\ufffe", "\x1b", "a\x00b"]) + doc[at:]
        if check_one(m, p, others, doc, r.random() < 0.3, r.random() < 0.7, fails):
            n += 1
            nontriv.add((p, doc))
        if i % 8 == 3:
            # speedup is a built-in plugin without any trigger character: enabling it on top of any plugins must leave every document
            # alone - through create_markdown and through the shortcut mistune.markdown().  (C09 states that property on its own and
            # lists four mechanisms by which the unchanged library breaks it; the same mechanisms are one listed finding here.)
            import props.C09 as c09
            ps = [x for x in others if x in base_plugins]
            d9 = doc
            if r.random() < 0.5:
                # a document that uses the constructs of one plugin, with that plugin among the others
                need, d9 = gen_docs.showcase_for(r)
                ps = list(dict.fromkeys(r.sample(need, len(need)) + ps)) if r.random() < 0.5 else list(dict.fromkeys(ps + need))
            sub = []
            c09.check_one(m, {"input": d9, "plugins": ps, "hard_wrap": False, "escape": r.random() < 0.7}, sub, shrink=False, shortcut=True)
            n += 1
            for f in sub:
                f = dict(f, plugin="speedup", others=ps)
                if f.get("class"):
                    f["class"] = "speedup-known-divergences"
                fails.append(f)
        if len([f for f in fails if not f.get("class")]) >= 5:
            break
    known = [f for f in fails if f.get("class")]
    fails = [f for f in fails if not f.get("class")] + known[:2]
    return {"evaluations": n, "distinct_nontrivial": len(nontriv), "failures": fails, "known_finding_instances": len(known),
            "rule": "for each of the 17 plugin/directive configurations in turn: a generated document (25% interrupt/lazy-continuation interaction fragments, 50% structured with "
                    "all plugin syntaxes, 10% mutated, 8% tabs and mixed indentation after container markers, 7% noise) from which one specified trigger character per rule of "
                    "the plugin has been deleted (for a plugin that takes over the handler of a core construct - spoiler: block quotes, task_lists: list items, fenced_directive: fenced code - half of the documents are made of that construct with tabs and mixed indentation, or have wide white space at the borders of block text); HTML with plugins=others vs others+[plugin], others = 0-5 random other "
                    "plugins/directives, hard_wrap and escape random; every 8th document also with and without speedup (a plugin without trigger characters) through create_markdown and the shortcut mistune.markdown(); distinct by (plugin, document)",
            "samples": [json.dumps(_strip(gen_docs.doc(ctx.rng('s'), plugins=gen_docs.ALL_PLUGINS), "|"))]}


def classify(f, known):
    for k in known:
        if k["id"] == f.get("class"):
            return k["id"]
    return None


def check_known(ctx, k):
    import props.C09 as c09
    cfg = k.get("config", {})
    sub = []
    c09.check_one(ctx.mistune, {"input": k["input"], "plugins": cfg.get("plugins", []), "hard_wrap": False, "escape": True}, sub, shrink=False)
    return bool(sub)


def replay(ctx, case):
    c = case.get("case", case)
    fails = []
    check_one(ctx.mistune, c["plugin"], c["others"], c["input"], c["hard_wrap"], c["escape"], fails)
    return fails[0] if fails else None
