"""C11 — code is reproduced verbatim."""
import html as htmlmod
import json
import re

from common import run_model

ID = "C11"
LEVEL = "other"
GEN = ["TmplGen", "UtilGen", "CodeGen", "RxGen", "UnicodeGen", "InlineGen", "BlockGen", "NormalizeGen"]
COQ = ["Props/C11.vo"]
EXPLANATION = (
    "PARTIAL proof + oracle. Proved (coq/Props/C11.v): the block_code and codespan templates regenerated from the renderer "
    "are, for every shape, a fixed frame around exactly one insertion escape(raw), and html.unescape of that piece is raw "
    "(all strings, via the C18 round trip), with no markup of its own; the code-span post-processing equals the documented "
    "rule (newline to space; one space trimmed at both ends unless all white space); on the block parser model (coq/Model/Block.v, tied by skeletons, BlockGen and a token-tree correspondence run) the raw text of a fenced block is a contiguous slice of the source, with at most the fence indentation removed per line when the fence is indented (C11_fenced_raw_is_a_source_slice). The extraction of fenced and indented "
    "code at top level and inside quotes / list items / quote-in-list (fence search, indentation and prefix removal) is "
    "decided by the oracle on generated bodies x fences x containers, with the token raw and the unescaped HTML both "
    "compared with the body; the control skeletons of the five functions involved are tied to committed skeletons.")
ASSUMPTIONS = ["the code-span content handed to the post-processing is what the codespan regex captures (engine conformance, C10)"]
TRUSTED = ["tools/skeletons/inline_parse_codespan.txt, block_parse_fenced_code.txt, block_parse_indent_code.txt, block_extract_block_quote.txt, list_*.txt"]
TECHNIQUE = "Coq: template frame + escape round trip + code-span rule; container extraction by differential execution on generated bodies"

LINES = ["code line", "  indented two", "\tTab", "", "*not em* _nor_", "&amp; &lt; <b>&#35;", "\\* \\` \\\\", "[a](b) ![c](d)", "# not heading", "- not list",
         "> not quote", "1. not list", "    four", "``", "~~", "`` ` ``", "<!-- c -->", "***", "---", "===", "| a | b |", "$x$", "end\\", "trailing  ",
         "é 😀  x", "<script>alert(1)</script>", "  ", "      ", "   ", "[^1]: note", "*[A]: b", ": def", "\x0bvt\x0c", "x\x85y z"]


def gen_body(r, fence_char, fence_len, allow_blank=True):
    n = r.randint(0, 5)
    out = []
    for _ in range(n):
        l = r.choice(LINES)
        if not allow_blank and l == "":
            l = "x"
        # fence-like runs that do not close: shorter, other char, or with trailing text, or indented 4+
        k = r.random()
        if k < 0.12:
            l = fence_char * (fence_len - 1)
        elif k < 0.2:
            l = ("~" if fence_char == "`" else "`") * (fence_len + 1)
        elif k < 0.26:
            l = fence_char * fence_len + " x"
        elif k < 0.3:
            l = "    " + fence_char * fence_len
        out.append(l)
    return out


CONTAINERS = ["top", "quote", "bullet", "ordered", "quote-in-list", "list-in-quote"]


def wrap(lines, container):
    """returns the document text and the prefix added to every line"""
    if container == "top":
        return "\n".join(lines) + "\n"
    if container == "quote":
        return "\n".join(("> " + l) if l else ">" for l in lines) + "\n"
    if container == "bullet":
        return "\n".join((("- " if i == 0 else "  ") + l) if (l or i == 0) else "" for i, l in enumerate(lines)) + "\n"
    if container == "ordered":
        return "\n".join((("12. " if i == 0 else "    ") + l) if (l or i == 0) else "" for i, l in enumerate(lines)) + "\n"
    if container == "quote-in-list":
        return "\n".join((("- > " if i == 0 else "  > ") + l) if (l or True) else "" for i, l in enumerate(lines)).replace("> \n", ">\n") + "\n"
    if container == "list-in-quote":
        return "\n".join(("> " + (("- " if i == 0 else "  ") + l)) if (l or i == 0) else ">" for i, l in enumerate(lines)) + "\n"
    raise ValueError(container)


def find_code(tokens):
    out = []

    def walk(ts):
        for t in ts:
            if t["type"] == "block_code":
                out.append(t)
            if "children" in t:
                walk(t["children"])
    walk(tokens)
    return out


FENCE_PLUGINS = ["strikethrough", "mark", "insert", "superscript", "subscript", "footnotes", "table", "url", "abbr", "def_list", "math", "ruby", "task_lists", "spoiler"]


def check_fenced(m, r, fails):
    fc = r.choice(["`", "~"])
    fl = r.choice([3, 3, 4, 6])
    info = r.choice(["", "", "python", "c extra", "a&amp;b"])
    body = gen_body(r, fc, fl)
    container = r.choice(CONTAINERS)
    if container != "top":
        # (a tab that starts a code line inside a container is expanded to spaces: known finding C11/leading-tab-in-container)
        body = [l.replace("\t", "T") if l.startswith("\t") else l for l in body]
    open_indent = r.choice(["", "", " ", "  ", "   "]) if container == "top" else ""
    if open_indent:
        # body lines are written as they are (some indented less than, some more than the fence); the parser removes up
        # to len(open_indent) leading spaces; fence runs indented 4+ columns stay code
        body = [(" " * r.randint(0, 6) + l) if r.random() < 0.5 else l for l in body] + [" " * r.randint(4, 6) + fc * fl]
        lines = [open_indent + fc * fl + info] + body + [fc * fl]
        k = len(open_indent)
        expected = "".join((l[min(k, len(l) - len(l.lstrip(" "))):]) + "\n" for l in body)
    else:
        lines = [fc * fl + info] + body + [fc * fl]
        expected = "".join(l + "\n" for l in body)
    if r.random() < 0.3:
        # the fence directly below a line of text: it interrupts the paragraph (inside the container as well)
        lines = [r.choice(["Some text:", "as follows", "x", "See (1) below;"])] + lines
    doc = wrap(lines, container)
    # code is code whatever plugins are loaded (the ready-made mistune.html loads four, speedup among them)
    plugins = r.choice([None, None, None, ["speedup"], ["strikethrough", "footnotes", "table", "speedup"], FENCE_PLUGINS, FENCE_PLUGINS + ["speedup"]])
    ast_md = m.create_markdown(renderer=None, plugins=plugins)
    html_md = m.create_markdown(plugins=plugins)
    try:
        codes = find_code(ast_md(doc))
        out = html_md(doc)
    except Exception as e:  # noqa
        fails.append({"input": doc, "kind": "exception", "got": "%s: %s" % (type(e).__name__, e)})
        return
    if len(codes) != 1 or codes[0].get("raw") != expected:
        f = {"input": doc, "container": container, "plugins": plugins, "kind": "fenced-code-not-verbatim", "expected": expected, "got": [c.get("raw") for c in codes]}
        if len(codes) == 1 and container in ("bullet", "ordered", "list-in-quote", "quote-in-list"):
            # mechanism of the known finding: the only differences are lines of white space that came back empty
            e, g = expected.split("\n"), (codes[0].get("raw") or "").split("\n")
            if len(e) == len(g) and e != g and all(a == b or (a.strip(" ") == "" and b == "") for a, b in zip(e, g)):
                f["class"] = "whitespace-only-line-in-item-code"
        if plugins and "def_list" in plugins and any(re.match(r":[ \t]", l) for l in body):
            # mechanism of the known finding: with the definition-list plugin a line of text above the fence and a body line that
            # begins like a definition make a definition list out of the opening fence; without that plugin the same document is fine
            rest = [x for x in plugins if x != "def_list"]
            c2 = find_code(m.create_markdown(renderer=None, plugins=rest)(doc))
            if len(c2) == 1 and c2[0].get("raw") == expected:
                f["class"] = "def-list-head-swallows-fence"
        fails.append(f)
        return
    mm = re.findall(r"<pre><code[^>]*>(.*?)</code></pre>", out, re.S)
    if len(mm) != 1 or htmlmod.unescape(mm[0]) != expected:
        fails.append({"input": doc, "container": container, "plugins": plugins, "kind": "html-code-does-not-unescape-to-body", "expected": expected, "got": mm})


def check_indented(m, r, fails):
    body = [l for l in gen_body(r, "`", 3, allow_blank=False)] or ["x"]
    body = [l for l in body if l.strip()] or ["x"]
    container = r.choice(["top", "quote", "bullet-after-para", "deep-quotes", "deep-mixed"])
    lines = ["    " + l for l in body]
    if container in ("deep-quotes", "deep-mixed"):
        # inside the innermost container the nesting limit allows (and one level above it): every leaf block is still parsed there
        k = r.choice([5, 6, 6])
        pre = "> " * k if container == "deep-quotes" else "".join(r.choice(["> ", "> ", "- "]) for _ in range(k - 1)) + "> "
        cont = pre.replace("- ", "  ")
        doc = pre + "para\n" + cont.rstrip() + "\n" + "\n".join(cont + l for l in lines) + "\n"
    elif container == "top":
        doc = "\n".join(lines) + "\n"
    elif container == "quote":
        doc = "\n".join(">" + " " + l for l in lines) + "\n"
    else:
        doc = "- para\n\n" + "\n".join("  " + l for l in lines) + "\n"
    expected = "\n".join(body)
    try:
        codes = find_code(m.create_markdown(renderer=None)(doc))
    except Exception as e:  # noqa
        fails.append({"input": doc, "kind": "exception", "got": "%s: %s" % (type(e).__name__, e)})
        return
    if len(codes) != 1 or codes[0].get("raw") != expected:
        fails.append({"input": doc, "container": container, "kind": "indented-code-not-verbatim", "expected": expected,
                      "got": [c.get("raw") for c in codes]})


SPAN = ["code", "a b", " x ", "  ", "a*b*", "<i>&amp;", "\\", "a\nb", " a", "a ", "`", "``", "é", "[x](y)", "&#35;", " `` ", "\\`",
        "f(*args)", "a_b_c", "x**y", "__init__", "a*", "*b", "~~x~~", "[", "](u)", "<b>", "$x$", "|"]
# what surrounds the span: plain text, emphasis and strong (also nested in each other), link text, other blocks
SPAN_CTX = [("a ", " b"), ("a ", " b"), ("*e ", " f* g"), ("**s ", " t** u"), ("**see *the ", " call* here**"), ("*a **b ", " c** d*"), ("_a __b ", " c__ d_"),
            ("__s _e ", " f_ t__"), ("[t ", " u](/x) v"), ("*e [t ", " u](/x) f*"), ("# h ", ""), ("- i ", ""), ("> q ", ""), ("***x ", " y***")]


def _spans(toks):
    out = []
    for t in toks:
        if t.get("type") == "codespan":
            out.append(t)
        if t.get("children"):
            out += _spans(t["children"])
    return out


def spec_codespan(c):
    c = c.replace("\n", " ")
    if c.strip() and c.startswith(" ") and c.endswith(" "):
        c = c[1:-1]
    return c


def check_span(m, r, fails):
    c = r.choice(SPAN)
    if r.random() < 0.3:
        c = c + r.choice(SPAN)
    runs = [len(x) for x in re.findall(r"`+", c)]
    n = 1
    while n in runs:
        n += 1
    pad = " " if (c.startswith("`") or c.endswith("`")) else ""
    inner = pad + c + pad
    pre, post = r.choice(SPAN_CTX)
    if "\n" in inner and pre[:1] in "#->":
        pre, post = "a ", " b"       # (a span that holds a line ending cannot sit in a one-line block)
    doc = pre + "`" * n + inner + "`" * n + post + "\n"
    if r.random() < 0.25:
        # an EARLIER block that holds an unpaired run of backticks of the same length (what one block's scan learns about backtick runs
        # is of no concern to the next block)
        doc = r.choice(["Press the %s key\n\n", "# about %s\n\n", "- item %s\n\n", "> quote %s x\n\n", "| %s |\n|---|\n\n"]) % ("`" * n) + doc
    expected = spec_codespan(inner)
    if not inner or inner.endswith("`") or inner.startswith("`"):
        return
    try:
        toks = m.create_markdown(renderer=None)(doc)
        spans = _spans(toks)
        out = m.create_markdown()(doc)
    except Exception as e:  # noqa
        fails.append({"input": doc, "kind": "exception", "got": "%s: %s" % (type(e).__name__, e)})
        return
    if len(spans) != 1 or spans[0]["raw"] != expected:
        f = {"input": doc, "kind": "codespan-not-verbatim", "expected": expected, "got": [s["raw"] for s in spans]}
        if "[t " in pre and pre[:1] in "*_" and any(ch in inner for ch in "[]") and any(ch in inner for ch in "*_"):
            # mechanism of the known finding: bracket + delimiter inside the span, link text inside emphasis
            f["class"] = "bracket-and-delimiter-in-codespan-in-link-in-emphasis"
        fails.append(f)
        return
    mm = re.findall(r"<code>(.*?)</code>", out, re.S)
    if len(mm) != 1 or htmlmod.unescape(mm[0]) != expected:
        fails.append({"input": doc, "kind": "html-codespan-does-not-unescape", "expected": expected, "got": mm})


def correspondence(ctx):
    m = ctx.mistune
    r = ctx.rng("corr")
    # the code-span post-processing: model vs implementation through the real parser
    cases = []
    for _ in range(ctx.n(800, 10000)):
        c = "".join(r.choice([" ", "a", "\n", "b", "  ", "\t", " ", "x y"]) for _ in range(r.randint(1, 6)))
        if "`" in c or not c or c.isspace() and False:
            continue
        cases.append(c)
    res = run_model([("codespan_text", c) for c in cases])
    dis = []
    md = m.create_markdown(renderer=None)
    for c, mv in zip(cases, res):
        doc = "``" + c + "``"
        try:
            toks = md.inline(doc, {})
            spans = [t["raw"] for t in toks if t["type"] == "codespan"]
            iv = spans[0] if len(spans) == 1 and len(toks) == 1 else None
        except Exception as e:  # noqa
            iv = "EXC:%s" % type(e).__name__
        if iv is not None and iv != mv:
            dis.append({"input": c, "model": mv, "impl": iv})
    import corr_block
    b = corr_block.run(ctx, ctx.n(1200, 20000))
    return {"evaluations": len(cases) + b["evaluations"], "disagreements": (dis + b["disagreements"])[:20], "samples": [json.dumps(cases[0])],
            "parts": {"code span rule": len(cases), "block parser model": b["evaluations"]}}


def oracle(ctx, extra):
    m = ctx.mistune
    r = ctx.rng("oracle")
    fails = []
    n = 0
    for i in range(ctx.n(3000, 60000)):
        k = i % 4
        if k < 2:
            check_fenced(m, r, fails)
        elif k == 2:
            check_indented(m, r, fails)
        else:
            check_span(m, r, fails)
        n += 1
        if len([f for f in fails if not f.get("class")]) >= 5:
            break
    known = [f for f in fails if f.get("class")]
    fails = [f for f in fails if not f.get("class")] + known[:3]
    return {"evaluations": n, "distinct_nontrivial": n, "failures": fails, "known_finding_instances": len(known),
            "rule": "50% fenced blocks: fence char ` or ~, length 3/4/6, info strings, bodies of 0-5 lines drawn from 34 hostile lines "
                    "(markdown-looking text, entities, backslashes, tabs, blank lines, lines of 2 / 3 / 6 spaces, shorter / other-character / suffixed / 4-space-"
                    "indented fence runs) in 6 containers (top level with 0-3 spaces of fence indentation, quote, bullet item, ordered "
                    "item, quote in list, list in quote); 25% indented code (top, quote, list item after a paragraph, inside 5 or 6 nested quotes / mixed containers, i.e. at the nesting limit); 25% code spans (bodies with emphasis delimiters, brackets and plugin markers; inside plain text, emphasis and strong nested in each other, link text, headings, items, quotes) "
                    "(content with spaces, newlines, backticks, markup, entities); token raw and unescaped HTML compared with the body",
            "samples": [json.dumps(wrap(["```", "a", "```"], "quote-in-list"))]}


def classify(f, known):
    for k in known:
        if k["id"] == f.get("class"):
            return k["id"]
    return None


def check_known(ctx, k):
    toks = ctx.mistune.create_markdown(renderer=None, plugins=k.get("plugins"))(k["input"])
    if isinstance(k["wrong"], list):
        return [s["raw"] for s in _spans(toks)] == k["wrong"]
    codes = find_code(toks)
    return len(codes) == 1 and codes[0].get("raw") == k["wrong"]


def replay(ctx, case):
    c = case.get("case", case)
    m = ctx.mistune
    doc = c["input"]
    if c["kind"].startswith(("fenced", "html-code", "indented")):
        codes = find_code(m.create_markdown(renderer=None)(doc))
        if len(codes) != 1 or codes[0].get("raw") != c["expected"]:
            return {"got": [x.get("raw") for x in codes]}
        return None
    toks = m.create_markdown(renderer=None)(doc)
    spans = _spans(toks)
    return None if (len(spans) == 1 and spans[0]["raw"] == c["expected"]) else {"got": [s["raw"] for s in spans]}
