"""C13 — reformatting with the Markdown renderer preserves the document."""
import json

import canon

ID = "C13"
LEVEL = "other"
GEN = ["MdRenderGen", "RxGen", "UnicodeGen", "InlineGen", "BlockGen", "NormalizeGen", "UtilGen"]
COQ = ["Props/C13.vo"]
EXPLANATION = (
    "Oracle-level decision with proved mechanism lemmas. For random canonical document trees with plain-word text "
    "(tools/canon.py: headings, paragraphs, fenced and indented code, breaks, HTML blocks, quotes, bullet/ordered tight/"
    "loose nested lists, emphasis, links, images, reference links) the check parses the printed document, renders it with "
    "MarkdownRenderer, parses the result and compares the normalised token trees; a second reformat must be byte-identical. "
    "Proved (coq/Props/C13.v): on the executable model of the reformatter (coq/Model/MdDoc.v: every method of MarkdownRenderer and the shared list renderer over the core AST of the parser models; tied by skeletons with constants, regenerated patterns and the Markdown correspondence run of this check - model output = create_markdown(renderer=MarkdownRenderer())(text) on generated texts), for EVERY document reformatting drops and reorders no word character: the letters and digits of all text, code and HTML leaves, in order, are a subsequence of those of the reformatted text (C13_reformatting_keeps_every_word); and the fence chosen by _get_fenced_marker cannot be closed by any fence run that starts a line "
    "of the code. Tie: control skeletons of every MarkdownRenderer method and of renderers/_list.py are compared with "
    "committed skeletons. The full round-trip theorem needs the parser model and is not claimed.")
ASSUMPTIONS = ["tools/canon.py is the statement of the canonical subset"]
TRUSTED = ["tools/skeletons/mdr_*.txt, lst_*.txt"]
TECHNIQUE = "Coq lemma on the fence-marker choice + skeleton tie; round trip decided by differential execution on generated canonical trees"


def add_reflinks(r, tree):
    """append paragraphs that use reference links / images, and their definitions"""
    labels = r.sample(["ref", "two words", "k2", "Zed", "a longer label"], r.randint(1, 3))

    def spell(l):
        # the same label as the parser matches it: any case, any run of blanks or one line ending between its words
        k = r.random()
        if k < 0.5:
            return l
        if k < 0.65:
            return r.choice([l.upper(), l.title(), l.swapcase()])
        if " " in l:
            return l.replace(" ", r.choice(["  ", "\n", " \n", "\t", "   "]), 1 if r.random() < 0.5 else -1)
        return l.lower()
    uses = " and ".join(r.choice(["[%s][%s]" % (r.choice(canon.WORDS), spell(l)), "[%s]" % spell(l), "![%s][%s]" % (r.choice(canon.WORDS), spell(l)),
                                  "[%s][]" % spell(l)]) for l in labels)
    defs = "\n".join("[%s]: /u%d%s" % (spell(l) if r.random() < 0.3 else l, i, r.choice(["", ' "title %d"' % i])) for i, l in enumerate(labels))
    return uses, defs


def check_tree(m, r, tree, fails, with_refs, odd_ends=False):
    from mistune.renderers.markdown import MarkdownRenderer
    doc = canon.print_doc(tree)
    if with_refs:
        uses, defs = add_reflinks(r, tree)
        doc = doc + "\n" + uses + "\n\n" + defs + "\n"
    if odd_ends:
        # the same document with a character that str.splitlines() takes for a line end (and Markdown does not) at the END of one
        # or two of its lines: the round trip is stated for the document, whatever tree it has
        lines = doc.split("\n")
        cand = [k for k, ln in enumerate(lines) if ln[-1:].isalpha()]
        for k in r.sample(cand, min(len(cand), r.randint(1, 2))):
            lines[k] += r.choice(["\u2028", "\x0c", "\x85", "\u2029", "\x0b", "\x1c", "\x1e"])
        doc = "\n".join(lines)
    p = m.create_markdown(renderer=None)
    fmt = m.create_markdown(renderer=MarkdownRenderer())
    hits = []
    try:
        raw1 = p(doc)
        t1 = canon.normalise(raw1)
        out1 = fmt(doc)
        t2 = canon.normalise(p(out1))
        out2 = fmt(out1)
    except Exception as e:  # noqa
        fails.append({"input": doc, "kind": "exception", "got": "%s: %s" % (type(e).__name__, e)})
        return
    if t1 != t2:
        f = {"input": doc, "kind": "reformatting-changes-the-tree", "where": canon.first_diff(t1, t2), "reformatted": out1[:1500]}
        if canon.normalise(raw1, True, hits) == t2 and hits:
            f["class"] = "indented-code-gains-newline"
        fails.append(f)
    elif out1 != out2:
        fails.append({"input": doc, "kind": "second-reformat-differs", "first": out1[:1000], "second": out2[:1000]})


def correspondence(ctx):
    import corr_md
    return corr_md.run(ctx, ctx.n(2000, 40000))


def oracle(ctx, extra):
    m = ctx.mistune
    r = ctx.rng("oracle")
    fails = []
    n = 0
    seen = set()
    for i in range(ctx.n(2500, 50000)):
        # text of plain words; every second tree with inline structure around it (emphasis, strong, code spans, links with
        # titles and with destinations that need the pointy form, images, autolinks, soft and hard breaks)
        tree = canon.gen_blocks(r, 0, plain=(True if i % 2 else "words"))
        check_tree(m, r, tree, fails, with_refs=(i % 3 == 0), odd_ends=(i % 4 == 1))
        n += 1
        seen.add(json.dumps(tree))
        if len([f for f in fails if not f.get("class")]) >= 5:
            break
    known = [f for f in fails if f.get("class")]
    fails = [f for f in fails if not f.get("class")] + known[:2]
    return {"evaluations": n, "distinct_nontrivial": len(seen), "failures": fails, "known_finding_instances": len(known),
            "rule": "random canonical trees with plain-word text (block structure as in C04: headings, paragraphs, fenced/indented "
                    "code, thematic breaks, HTML blocks, quotes, bullet/ordered tight/loose lists nested to depth 3), every third "
                    "with reference links/images and their definitions appended; parse, render with MarkdownRenderer, parse "
                    "again, compare normalised trees; render a second time and compare text; distinct by tree",
            "samples": [json.dumps(canon.print_doc(canon.gen_blocks(ctx.rng('s'), 0, plain=True)))[:300]]}


def check_known(ctx, k):
    from mistune.renderers.markdown import MarkdownRenderer
    m = ctx.mistune
    p = m.create_markdown(renderer=None)
    out = m.create_markdown(renderer=MarkdownRenderer())(k["input"])
    return canon.normalise(p(out)) != canon.normalise(p(k["input"]))


def classify(f, known):
    for k in known:
        if k["id"] == f.get("class"):
            return k["id"]
    return None


def replay(ctx, case):
    c = case.get("case", case)
    from mistune.renderers.markdown import MarkdownRenderer
    m = ctx.mistune
    p = m.create_markdown(renderer=None)
    fmt = m.create_markdown(renderer=MarkdownRenderer())
    doc = c["input"]
    out1 = fmt(doc)
    t1, t2 = canon.normalise(p(doc)), canon.normalise(p(out1))
    if t1 != t2:
        return {"where": canon.first_diff(t1, t2)}
    if fmt(out1) != out1:
        return {"kind": "second-reformat-differs"}
    return None
