"""C17 — the command-line tool is a faithful front end to the library."""
import io
import json
import os
import runpy
import shutil
import subprocess
import sys
import tempfile

import gen_docs
from common import PY, impl_env, run_model

ID = "C17"
LEVEL = "proof"
GEN = ["CliGen"]
COQ = ["Props/C17.vo"]
EXPLANATION = (
    "Theorems in coq/Props/C17.v about a model of __main__.py whose argparse declarations, option keys, default plugin "
    "list and error text are regenerated from the source: for every command line made of well-formed option occurrences "
    "in any order and flag spelling, (1) the configuration handed to create_markdown is exactly the flags given "
    "(explicit -p values replace the default plugin list, defaults otherwise; --escape/--hardwrap; -r or html), (2) the "
    "same content supplied via -m, -f or stdin yields the same outcome (the library is an abstract function; reading a "
    "file is assumed to equal converting its text, which is C16 + Markdown.read), (3) stdout receives the text plus one "
    "newline and -o receives it verbatim, (4) no input is the documented error. The control skeletons of cli/_md/_output/"
    "read_stdin are compared with committed skeletons.")
ASSUMPTIONS = [
    "argparse is modelled for the subset used (exact option strings, store/store_true/extend nargs='+', defaults); "
    "abbreviations, '--opt=value' and values starting with '-' are outside the model and outside the generator",
    "create_markdown/Markdown.read are abstract functions in the theorems; the oracle runs the real ones",
    "renderer in {html, rst, markdown} (the documented values; 'ast' makes cli() fail its own assertion)"]
TRUSTED = ["tools/skeletons/cli_*.txt"]

PLUGINS = ["strikethrough", "footnotes", "table", "speedup", "url", "task_lists", "def_list", "abbr", "mark", "math", "spoiler"]


def fixed_requests():
    """corner requests that every run makes (the sampled ones meet them only now and then): messages whose first character means
    something to an argument parser, plugin lists in the orders that matter to the library, notes, inline images with every renderer"""
    out = []

    def req(content, channel="-m", plugins=None, renderer=None, **kw):
        q = {"content": content, "channel": channel, "plugins": plugins, "escape": False, "hardwrap": False, "renderer": renderer, "output": False,
             "long_flags": False, "order": 0.5, "split_p": False, "id": 800000 + len(out)}
        q.update(kw)
        out.append(q)
    for c in ["@alice thanks for the *patch*", "@", "@opts.txt", "+x", "=a", "@file.md and text"]:
        req(c)
        req(c, long_flags=True, output=True)
    for ps in (["speedup", "url"], ["url", "speedup"], ["speedup", "strikethrough", "url", "table"], ["speedup", "spoiler"], ["spoiler", "speedup"]):
        for ch in ("-m", "-f", "stdin"):
            req("see https://example.com/a now and >!hidden!< text\n", ch, ps)
            req("see https://example.com/a now\n", ch, ps, split_p=True)
    for ps in (["footnotes"], ["footnotes", "table"], ["table", "footnotes", "url"], ["footnotes", "footnotes"]):
        req("a[^1] b[^2] a[^1]\n\n[^1]: one\n[^2]: two\n", "stdin", ps)
        req("a[^1]\n\n[^1]: one\n", "-f", ps, output=True)
    for rn in ("markdown", "rst", "html", None):
        req("# notes\n\n- a *b*\n- c\n\ntext\n", "-f", ["speedup"] if rn in ("rst", "markdown") else None, rn, output=True, inplace=True)
        req("# notes\n\ntext\n", "-f", ["speedup"] if rn in ("rst", "markdown") else None, rn, output=True, inplace=True, long_flags=True, order=0.1)
    for rn in ("rst", "markdown", "html", None):
        for ch in ("-m", "-f", "stdin"):
            req("text ![alt](i.png) more ![b](j.png 't')\n\n![alone](k.png)\n", ch, ["speedup"] if rn in ("rst", "markdown") else None, rn)
    return out


def gen_request(r, i):
    doc_r = r
    k = r.random()
    if k < 0.6:
        content = gen_docs.doc(doc_r, plugins=PLUGINS, max_blocks=4)
    elif k < 0.75:
        content = gen_docs.noise(doc_r, 1, 30)
    elif k < 0.82:
        content = gen_docs.edge_doc(doc_r)
    else:
        content = r.choice(["Hi **Markdown**", "a\r\nb\r\n", "x",
                            # content whose first character means something to an argument parser, a shell or a path
                            "@alice thanks for the *patch*", "@", "@opts.txt", "+x", "=a", "/etc/hosts", "~ home", "%s %d", "$HOME {x}", "!bang", "#hash", "*.md", "\"quoted\"", "'q'", "?", "x -m y", "a --escape b", "~~s~~ https://e.x | a\n-|-\n1|2\n", "é 😀 <b>&amp;</b>", " lead", "\n\n# t\n",
                            # non-empty content that is white space only, of the narrow and of the wide kind
                            " ", "\t\n", "\u00a0", "\u3000\n", "\u2003 \u2003", "\x0c", "\u2028", "\x1c\x1d", " \n \n", "\ufeff", "\x0b\n\x0b"])
    content = content.replace("\x00", "")
    if not content.strip("\n") or content.startswith("-") or "\ud800" in content:
        content = "x" + content.lstrip("-")
    req = {
        "content": content,
        "channel": r.choice(["-m", "-f", "stdin", "-m", "-f"]),
        "plugins": r.sample(PLUGINS, r.randint(1, 4)) if r.random() < 0.5 else None,
        "escape": r.random() < 0.4, "hardwrap": r.random() < 0.3,
        "renderer": r.choice([None, None, "html", "rst", "markdown"]),
        "output": r.random() < 0.35,
        "long_flags": r.random() < 0.5, "order": r.random(), "split_p": r.random() < 0.3, "id": i,
    }
    if req["renderer"] in ("rst", "markdown") and req["plugins"]:
        req["plugins"] = [p for p in req["plugins"] if p in ("speedup", "url")] or None   # plugin tokens need the html renderer
    if req["renderer"] in ("rst", "markdown") and not req["plugins"]:
        req["plugins"] = ["speedup"]   # the default set contains table/footnotes tokens those renderers cannot render
    return req


def argv_of(req, r, tmp):
    L = req["long_flags"]
    groups = []
    src_path = None
    if req["channel"] == "-m":
        groups.append(["--message" if L else "-m", req["content"]])
    elif req["channel"] == "-f":
        src_path = os.path.join(tmp, "in%d.md" % req["id"])
        with open(src_path, "wb") as f:
            f.write(req["content"].encode("utf-8"))
        groups.append(["--file" if L else "-f", src_path])
    if req["plugins"]:
        if req["split_p"] and len(req["plugins"]) > 1:
            groups.append(["-p", req["plugins"][0]])
            groups.append(["--plugin"] + req["plugins"][1:])
        else:
            groups.append(["--plugin" if L else "-p"] + req["plugins"])
    if req["escape"]:
        groups.append(["--escape"])
    if req["hardwrap"]:
        groups.append(["--hardwrap"])
    if req["renderer"]:
        groups.append(["--renderer" if L else "-r", req["renderer"]])
    out_path = None
    if req["output"]:
        # (a file may be converted in place: the output file is the input file)
        out_path = src_path if (req.get("inplace") and src_path) else os.path.join(tmp, "out%d.txt" % req["id"])
        groups.append(["--output" if L else "-o", out_path])
    rr = __import__("random").Random(req["order"])
    # keep the two -p groups in order (extend appends), shuffle the rest
    idx = list(range(len(groups)))
    rr.shuffle(idx)
    pg = [i for i in idx if groups[i][0] in ("-p", "--plugin")]
    pg_sorted = sorted(pg)
    it = iter(pg_sorted)
    idx = [next(it) if groups[i][0] in ("-p", "--plugin") else i for i in idx]
    argv = [a for i in idx for a in groups[i]]
    return argv, src_path, out_path


def run_inproc(argv, stdin_text):
    """run `python -m mistune` in this process: (kind, stdout, exit code)"""
    old = sys.argv, sys.stdin, sys.stdout
    sys.argv = ["python -m mistune"] + argv

    class In(io.StringIO):
        def isatty(self):
            return stdin_text is None
    sys.stdin = In(stdin_text or "")
    sys.stdout = io.StringIO()
    code = 0
    try:
        runpy.run_module("mistune", run_name="__main__", alter_sys=False)
    except SystemExit as e:
        code = e.code if isinstance(e.code, int) else (0 if e.code is None else 1)
    except BaseException as e:  # noqa
        code = "EXC:%s:%s" % (type(e).__name__, e)
    finally:
        out = sys.stdout.getvalue()
        sys.argv, sys.stdin, sys.stdout = old
    return out, code


def run_subproc(argv, stdin_text):
    env = impl_env({"PYTHONIOENCODING": "utf-8"})
    try:
        p = subprocess.run([PY, "-m", "mistune"] + argv, env=env, timeout=60,
                           input=(stdin_text if stdin_text is not None else None),
                           stdin=(None if stdin_text is not None else subprocess.DEVNULL),
                           stdout=subprocess.PIPE, stderr=subprocess.PIPE, text=True, encoding="utf-8")
    except subprocess.TimeoutExpired:
        return "", "TIMEOUT"
    return p.stdout, p.returncode


def lib_expected(m, req):
    from mistune.renderers.markdown import MarkdownRenderer
    from mistune.renderers.rst import RSTRenderer
    rn = req["renderer"] or "html"
    renderer = RSTRenderer() if rn == "rst" else MarkdownRenderer() if rn == "markdown" else rn
    plugins = req["plugins"] or ["strikethrough", "footnotes", "table", "speedup"]
    md = m.create_markdown(escape=req["escape"], hard_wrap=req["hardwrap"], renderer=renderer, plugins=plugins)
    return md(req["content"])


def actual(req, r, tmp, runner):
    argv, src, outp = argv_of(req, r, tmp)
    stdin_text = req["content"] if req["channel"] == "stdin" else None
    out, code = runner(argv, stdin_text)
    filetext = None
    if outp and os.path.exists(outp):
        with open(outp, encoding="utf-8") as f:
            filetext = f.read()
    return argv, out, code, filetext


def check_req(m, req, r, tmp, runner, fails):
    try:
        want = lib_expected(m, req)
    except Exception as e:  # library itself fails on this input: C01's business
        return False
    argv, out, code, filetext = actual(req, r, tmp, runner)
    if req["output"]:
        ok = (code == 0 and filetext == want and out == "")
    else:
        ok = (code == 0 and out == want + "\n")
    if not ok:
        fails.append({"input": req, "argv": argv, "kind": "cli-differs-from-library",
                      "expected": want, "got_stdout": out, "got_file": filetext, "exit": code})
    return True


def decode_plan(v):
    kind = v[0]
    if kind == "stdout":
        text = v[1][:-1] if v[1].endswith("\n") else None
        return kind, None, text
    if kind == "file":
        return kind, v[1], v[2]
    return kind, None, v[1] if len(v) > 1 else None


def plan_cfg(text):
    src = text[0]
    esc, hw = text[1] == "1", text[2] == "1"
    rest = text[3:]
    renderer, rest = rest.split("\x00", 1)
    plugins, payload = rest.split("\x00", 1)
    return src, {"escape": esc, "hardwrap": hw, "renderer": renderer, "plugins": plugins.split("\x01") if plugins else []}, payload


def correspondence(ctx):
    m = ctx.mistune
    r = ctx.rng("corr")
    tmp = tempfile.mkdtemp(prefix="c17_")
    try:
        reqs = [gen_request(r, i) for i in range(ctx.n(250, 4000))]
        # malformed / edge command lines
        edge = [([], None), ([], ""), (["-m", ""], None), (["-m", "", "-f", ""], "from stdin"), (["-m", "a", "-f", "/nonexistent"], None),
                (["--escape"], "x *y*"), (["-p", "table"], "a|b\n-|-\n1|2\n"), (["-r", "html", "--hardwrap"], "a\nb")]
        argvs = []
        for q in reqs:
            argv, src, outp = argv_of(q, r, tmp)
            argvs.append((argv, q["content"] if q["channel"] == "stdin" else None, q))
        for a, s in edge:
            argvs.append((a, s, None))
        res = run_model([("cli", [argv, sin]) for argv, sin, _ in argvs])
        dis = []
        for (argv, sin, q), mv in zip(argvs, res):
            kind, path, text = decode_plan(mv)
            out, code = run_inproc(argv, sin)
            if kind in ("stdout", "file"):
                src, cfg, payload = plan_cfg(text)
                req2 = {"content": payload, "plugins": cfg["plugins"], "escape": cfg["escape"], "hardwrap": cfg["hardwrap"],
                        "renderer": cfg["renderer"]}
                if src == "F":
                    try:
                        with open(payload, "rb") as f:
                            req2["content"] = f.read().decode("utf-8")
                    except OSError:
                        req2 = None
                try:
                    want = lib_expected(m, req2) if req2 else None
                except Exception:
                    continue
                if want is None:
                    ok = code != 0
                elif kind == "stdout":
                    ok = (code == 0 and out == want + "\n")
                else:
                    got = open(path, encoding="utf-8").read() if os.path.exists(path) else None
                    ok = (code == 0 and got == want and out == "")
                    if os.path.exists(path):
                        os.remove(path)
            elif kind == "error":
                ok = (code == 1 and out == text + "\n")
            else:
                ok = code not in (0, 1) or kind == "version"
            if not ok:
                dis.append({"input": q or {"argv": argv, "stdin": sin}, "argv": argv, "model": mv[:1] + [str(x)[:200] for x in mv[1:]],
                            "impl": [out[:300], code]})
                if len(dis) > 10:
                    break
        return {"evaluations": len(argvs), "disagreements": dis, "samples": [json.dumps(argvs[0][0])]}
    finally:
        shutil.rmtree(tmp, ignore_errors=True)


def oracle(ctx, extra):
    m = ctx.mistune
    r = ctx.rng("oracle")
    tmp = tempfile.mkdtemp(prefix="c17o_")
    fails = []
    try:
        reqs = [e for e in extra if isinstance(e, dict) and "channel" in e]
        reqs += fixed_requests()
        reqs += [gen_request(r, i) for i in range(ctx.n(400, 6000))]
        n = 0
        for q in reqs:
            n += check_req(m, q, r, tmp, run_inproc, fails)
            if len(fails) >= 5:
                break
        # cross-channel agreement + real subprocesses on a sample
        nsub = 0
        for q in reqs[: ctx.n(40, 400)]:
            if len(fails) >= 5:
                break
            outs = []
            for ch in ("-m", "-f", "stdin"):
                q2 = dict(q, channel=ch, output=False)
                argv, out, code, _ = actual(q2, r, tmp, run_subproc)
                outs.append((out, code))
                nsub += 1
            if len(set(outs)) != 1:
                fails.append({"input": q, "kind": "channels-disagree", "got": [list(o) for o in outs]})
            else:
                check_req(m, dict(q, output=False), r, tmp, run_subproc, fails)
                nsub += 1
        # BOM / first-column sensitivity per channel
        for content in ["﻿# Title\n", "﻿plain\n", "# t\r\n\r\n> q\r\n"]:
            outs = []
            for ch in ("-m", "-f", "stdin"):
                q2 = dict(gen_request(r, 900000), content=content, channel=ch, output=False, plugins=None, renderer=None)
                argv, out, code, _ = actual(q2, r, tmp, run_inproc)
                outs.append((out, code))
            n += 3
            if len(set(outs)) != 1:
                fails.append({"input": dict(q2, channel="all"), "kind": "channels-disagree", "got": [list(o) for o in outs]})
        return {"evaluations": n + nsub, "distinct_nontrivial": len({json.dumps([q["content"], q["plugins"], q["escape"], q["hardwrap"], q["renderer"], q["channel"], q["output"]]) for q in reqs[:n]}),
                "failures": fails, "subprocess_runs": nsub,
                "rule": "requests = document (structured/noise/edge documents/fixed incl. CRLF, non-ASCII and white-space-only content of the narrow and wide kind) x channel (-m,-f,stdin) x "
                        "plugin list (none or 1-4 names, possibly split over two -p) x --escape x --hardwrap x renderer "
                        "(default/html/rst/markdown) x output (stdout/-o) x short/long flags x option order; CLI run "
                        "in-process (runpy) for volume and as real subprocesses on a sample; compared with "
                        "create_markdown(...)(content) built directly from the request; distinct by request",
                "samples": [json.dumps({k: reqs[0][k] for k in ("channel", "plugins", "escape", "renderer", "output")})]}
    finally:
        shutil.rmtree(tmp, ignore_errors=True)


def replay(ctx, case):
    c = case.get("case", case)
    tmp = tempfile.mkdtemp(prefix="c17r_")
    fails = []
    try:
        r = ctx.rng("replay")
        if c.get("kind") == "channels-disagree":
            outs = []
            for ch in ("-m", "-f", "stdin"):
                q2 = dict(c["input"], channel=ch, output=False)
                argv, out, code, _ = actual(q2, r, tmp, run_subproc)
                outs.append((out, code))
            return None if len(set(outs)) == 1 else {"got": outs}
        check_req(ctx.mistune, c["input"], r, tmp, run_subproc, fails)
        return fails[0] if fails else None
    finally:
        shutil.rmtree(tmp, ignore_errors=True)
