"""C03 — parsing neither loses nor duplicates document text."""
import collections
import json
import re

import gen_docs
from common import run_model, shrink_text

ID = "C03"
LEVEL = "other"
GEN = ["RxGen", "UnicodeGen", "SubSitesGen", "BlockGen", "InlineGen", "UtilGen"]
COQ = ["Props/C03.vo"]
EXPLANATION = (
    "PARTIAL proof + oracle. Proved (coq/Props/C03.v): (4) TEXT CONSERVATION OF THE BLOCK PARSER, for every text: on the executable "
    "model of BlockParser / list_parser / BlockState (coq/Model/Block.v, tied to the source by control skeletons with constants, "
    "the regenerated patterns of BlockGen and a token-tree + reference-table correspondence run), for every ASCII letter x the "
    "number of x in the source equals the number of x in the text fields of the block token tree (paragraph and heading text, "
    "code and info strings, HTML blocks, at every depth of quotes and lists, lazy continuation lines and interrupting blocks "
    "included) plus the number in the reference table (label, title, and a pre-image of the destination under escape_url) plus "
    "what was discarded - and something is discarded only when a link reference definition repeats a label that is already "
    "defined (C03_block_parse_conserves_letters, by induction over every handler and loop of the model; Proofs/BlockCons.v, "
    "1400 lines). Corollaries: nothing is ever emitted twice (C03_block_parse_never_duplicates) and a text without reference "
    "definitions loses nothing (C03_block_parse_loses_nothing). The facts about the regenerated patterns are new reflective "
    "analyses proved sound against the regex semantics (Proofs/RxCov.v): the kept characters of a match lie inside the capture "
    "the handler keeps (cov), a capture is clean (gav), a match ends at a line end (eol), ends with a newline (endsnl), is "
    "quoted (quoted); find_line_end never skips a newline; _LINE_HAS_TEXT fails only on white space (engine completeness). "
    "Also proved, for every subject string: (1) each of the pattern.sub and str.replace "
    "call sites of the parse path - enumerated from the current source by the translator, with pattern, replacement and "
    "count - keeps the sequence of ASCII letters and digits of its argument (RxAnalysis.avoids on the regenerated pattern, a "
    "model of CPython's sub loop including must_advance, and captures-lie-inside-the-match for the group templates), so "
    "quote-prefix removal, indentation trimming for every width, tab expansion, ATX closing sequences, trailing-blank "
    "removal, definition-list and spoiler markers and back-slash unescaping can delete or insert only punctuation and white "
    "space; (2) a captured group is a stretch of what its match consumed; (3) loop-level partition: if every step records "
    "spans tiling the stretch the cursor moved over, the final spans tile the source and their slices concatenate to it. "
    "NOT proved: the inline pass (link destinations, titles and labels inside paragraphs) and the plugins' block rules. "
    "That is decided by the "
    "oracle: every word of a generated document is replaced by a unique token and must occur exactly once in the token tree "
    "(raw leaves, destinations, titles, info strings, labels) or, for reference definitions, in env['ref_links'].")
ASSUMPTIONS = ["words = maximal runs of ASCII letters/digits beginning with a letter; list ordinals and the words of ignored duplicate "
               "definitions are outside the claim (the generator produces no duplicate labels)"]
TRUSTED = ["tools/translate.py gen_subsites (which calls are document rewrites; the exclusions are listed in coq/Gen/SubSitesGen.v)",
           "tools/skeletons/bp_* lp_* bstate_* hp_* (block parser model tie)"]
TECHNIQUE = "Coq: letter conservation of the whole block parser model by induction over its handlers and loops (multiset of ASCII letters: source = tree + reference table + dropped duplicate definitions), reflective regex analyses proved sound; letters-and-digits preservation of every sub/replace call site; inline pass and plugins by unique-word accounting"

WORD = re.compile(r"[A-Za-z][A-Za-z0-9]*")
RESERVED = {"pre", "script", "style", "textarea", "div", "table", "p", "http", "https", "www", "x", "X", "CDATA", "mailto"}
PLUGINS = ["strikethrough", "mark", "insert", "superscript", "subscript", "table", "task_lists", "spoiler", "url", "math", "ruby", "def_list"]


W = "Wd"  # placeholder: every occurrence becomes a fresh unique word


def ref_def(r):
    label = r.choice(["Wd", "Wd Wd", "Wd\nWd", "Wd*Wd*", "Wd\\]Wd"])
    dest = r.choice(["/Wd", "<Wd Wd>", "<>", "Wd(Wd)", "/Wd\\ Wd", "<Wd\\>Wd>"])
    title = r.choice(["", "", ' "Wd Wd"', " 'Wd'", " (Wd)", '\n"Wd Wd"', "\n  'Wd'", ' "Wd\nWd"', ' "Wd" Wd', '\n"Wd" Wd', "\n'Wd' Wd Wd", ' "Wd',
                      '\n"Wd', " Wd", '\n(Wd) Wd', ' "Wd\\"Wd"', ' "Wd\n\nWd"'])
    sep = r.choice([" ", "\n", "\n   ", "  "])
    tail = r.choice(["\n", "\n", "\nWd lazy\n", "\n\n", "\n[Wd]: /Wd\n", "\n===\n", "\n- Wd\n"])
    return "[" + label + "]:" + sep + dest + title + tail


def ragged_table(r):
    cols = r.randint(1, 3)
    style = r.random() < 0.5

    def row(n):
        cells = [r.choice(["Wd", "Wd Wd", "`Wd`", "[Wd](/Wd 'Wd')", "*Wd*", "", "Wd\\|Wd"]) for _ in range(n)]
        return ("| " + " | ".join(cells) + " |") if style else " | ".join(cells)
    delim = ("|" + "|".join(r.choice(["---", ":--", "--:", ":-:"]) for _ in range(cols)) + "|") if style else " | ".join(["---"] * cols)
    if not style and cols == 1:
        delim = "---|"
    rows = [row(cols + r.choice([0, 0, 0, 1, 2, -1])) for _ in range(r.randint(1, 4))]
    head = row(cols + r.choice([0, 0, 0, 0, 1, -1]))
    return "\n".join([head, delim] + [x for x in rows if x.strip(" |")]) + r.choice(["\n", "\nWd Wd\n", "\n\n"])


def inline_hot(r):
    """an emphasis / strong / link-text span that holds complete inline constructs and then one that straddles its closer (the
    parser looks ahead at such constructs to decide precedence: what it parses speculatively must not be emitted as well)"""
    op, cl = r.choice([("*", "*"), ("**", "**"), ("_", "_"), ("[", "](/Wd)"), ("[", "][Wd]"), ("![", "](/Wd 'Wd')"), ("~~", "~~"), ("==", "==")])
    whole = lambda: r.choice(["`Wd`", "[Wd](/Wd)", "<b Wd>", "![Wd](/Wd \"Wd\")", "<http://Wd.Wd>", "`` Wd ` Wd ``", "[Wd][Wd]", "<Wd@Wd.Wd>", "\\*", "Wd"])  # noqa
    a, b = r.choice([("`Wd", " Wd`"), ("[Wd", " Wd](/Wd)"), ("<b Wd=\"", "Wd\">"), ("<http://Wd", ".Wd>"), ("``Wd", "Wd``"), ("![Wd", "Wd](/Wd)")])
    mid = " ".join(whole() for _ in range(r.randint(0, 3)))
    line = "Wd %sWd %s %s%s%s Wd" % (op, mid, a, cl, b)
    if r.random() < 0.3:
        line += " " + " ".join(whole() for _ in range(r.randint(1, 2)))
    return r.choice(["", "", "# ", "> ", "- "]) + line + "\n" + r.choice(["", "\n[Wd]: /Wd\n"])


def hot_block(r):
    k = r.random()
    if k < 0.12:
        return inline_hot(r)
    if k < 0.22:
        # runs of ruby groups with link tails (the groups are flushed one by one; a tail applies to the last group)
        g = lambda: "[Wd(Wd)]"  # noqa
        return "Wd " + "".join(g() for _ in range(r.randint(1, 3))) + r.choice(["(/Wd)", "(/Wd 'Wd')", "[Wd]", "[Wd]", "[]", "(", "[Wd(Wd)"]) + " Wd\n\n[Wd]: /Wd\n"
    if k < 0.26:
        # definition lists whose "term" is itself a colon line (no paragraph above that could serve as the term)
        return r.choice([": Wd Wd\n: Wd\n", "# Wd\n: Wd\n: Wd\n  Wd\n", "Wd\n\n\n: Wd Wd\n: Wd\n", "***\n:   Wd\n:   Wd\n\n    Wd\n", ": Wd\n: Wd\n: Wd\nWd\n"])
    if k < 0.31:
        # bare URLs (the url plugin) and what can stand directly behind or around one: a character reference, punctuation, brackets,
        # link text, a raw anchor, a table cell
        return r.choice(["Wd &Wd;https://Wd.Wd/Wd&Wd; Wd\n", "Wd (https://Wd.Wd/Wd_(Wd)) Wd\n", "Wd https://Wd.Wd/Wd?Wd=Wd&Wd=Wd. Wd\n",
                         "[Wd https://Wd.Wd/Wd Wd](/Wd)\n", "<a href=Wd>https://Wd.Wd/Wd</a> http://Wd.Wd\n", "https://Wd.Wd/Wd&Wd;\n",
                         "> - Wd https://Wd.Wd/Wd&Wd; Wd\n>   Wd\n", "| https://Wd.Wd/Wd&Wd; | Wd |\n|---|---|\n| Wd | http://Wd.Wd, |\n",
                         "*Wd http://Wd.Wd/Wd* Wd, https://Wd.Wd/Wd&Wd;Wd;\n", "Wd https://Wd.Wd/Wd&amp;Wd&#38; Wd\n", "http://Wd.Wd/Wd)Wd) Wd\n"])
    if k < 0.38:
        return ref_def(r)
    if k < 0.55:
        return ragged_table(r)
    if k < 0.65:
        return r.choice(["Wd\n: Wd\n  Wd\n\n  Wd\n: Wd\n", "Wd\nWd\n: Wd\nWd lazy\n", "Wd\n\n: Wd\n\n      Wd\n", "Wd\n:   Wd\n    - Wd\n"])
    if k < 0.75:
        return r.choice(["<div Wd>\nWd *Wd*\n</div>\nWd\n", "<pre>\nWd\n\nWd</pre> Wd\nWd\n", "<!-- Wd\n\nWd --> Wd\n", "<?Wd\nWd?>\nWd\n",
                         "<Wd>\nWd\n\nWd\n", "</Wd>\nWd\n", "<![CDATA[Wd\n\nWd]]>Wd\n", "<!Wd Wd>\nWd\n"])
    if k < 0.85:
        return r.choice(["```Wd Wd\nWd\n``` \nWd\n", "~~~ Wd\nWd\n", "    Wd\n\n    Wd\nWd\n", "Wd\n    Wd\n", "```\nWd\n````\nWd\n", "Wd\n```Wd\nWd\n```\n"])
    return r.choice(["Wd\n===\nWd\n---\n", "# Wd #\n## Wd ## Wd\n", "Wd  \nWd\\\nWd\n", "Wd\n***\nWd\n", "- [ ] Wd\n- [x] Wd\n", "$$\nWd\n$$\nWd $Wd$ Wd\n",
                     "Wd ~~Wd~~ ==Wd== ^^Wd^^ ^Wd^ ~Wd~ >!Wd!< [Wd(Wd)]\n", ">! Wd\n>! Wd\nWd\n", "[Wd]: /Wd\n\n[Wd]: /Wd 'Wd'\n"])


def nest(r, text, depth):
    if depth <= 0:
        return text
    lines = text.split("\n")
    if lines and lines[-1] == "":
        lines.pop()
    k = r.random()
    lazy = r.random() < 0.3
    out = []
    if k < 0.4:
        for i, l in enumerate(lines):
            out.append(l if (lazy and i > 0 and l.strip() and r.random() < 0.5) else ((">" + r.choice([" ", " ", ""]) + l) if l else ">"))
    elif k < 0.8:
        marker = r.choice(["- ", "* ", "1. ", "12) ", "-   "])
        pad = " " * len(marker)
        for i, l in enumerate(lines):
            if i == 0:
                out.append(marker + l)
            elif lazy and l.strip() and r.random() < 0.4:
                out.append(l)
            else:
                out.append((pad + l) if l else "")
    else:
        return nest(r, "Wd\n" + r.choice(["", "\n"]) + text, depth)
    return nest(r, "\n".join(out) + "\n", depth - 1)


def hot_doc(r):
    parts = []
    for _ in range(r.randint(1, 4)):
        b = hot_block(r)
        parts.append(nest(r, b, r.choice([0, 0, 1, 1, 2, 3])))
        if r.random() < 0.5:
            parts.append("\n")
        if r.random() < 0.25:
            parts.append(r.choice(["Wd Wd\n", "[Wd]\n", "[Wd][Wd] ![Wd][]\n", "Wd\n\n"]))
    return "".join(parts)


def uniquify(doc, first="w"):
    """every word becomes a unique token <first><number>q; the first letter varies between documents (a word that begins like
    the mark of a task-list checkbox, x or X, must survive as well)"""
    n = [0]

    def rep(m):
        if m.group(0) in RESERVED:
            return m.group(0)
        n[0] += 1
        return "%s%dq" % (first, n[0])
    return WORD.sub(rep, doc), n[0]


def tree_words(tokens, env, escape_url):
    c = collections.Counter()

    def add(s):
        if isinstance(s, str):
            c.update(re.findall(r"[wxX]\d+q", s))

    def walk(ts):
        for t in ts:
            add(t.get("raw"))
            a = dict(t.get("attrs") or {})
            ch = t.get("children")
            if t.get("type") == "link" and "title" not in a and ch and len(ch) == 1 and ch[0].get("type") == "text" \
                    and a.get("url") in (escape_url(ch[0].get("raw", "")), escape_url("mailto:" + ch[0].get("raw", ""))):
                # an autolink shows its destination as its text: one source occurrence, two by construction (words are unique in
                # the input, so an explicit link can never have text equal to its destination)
                a.pop("url")
            if "ref" in t:
                # a resolved reference link shows the destination and title OF ITS DEFINITION (counted once, in the reference table);
                # what the use site itself contributes is its text and its label
                a.pop("url", None)
                a.pop("title", None)
            for k in ("url", "title", "info", "alt", "rt"):
                add(a.get(k))
            if "ref" in t and ch and len(ch) == 1 and ch[0].get("type") == "text" and ch[0].get("raw") == t.get("label"):
                # a shortcut or collapsed reference ([foo], [foo][]) shows its label as its text: one source occurrence (words are
                # unique in the input, so a full reference can never have text equal to its label)
                pass
            else:
                add(t.get("label"))
            if "children" in t:
                walk(t["children"])
    walk(tokens)
    for key, d in (env.get("ref_links") or {}).items():
        add(d.get("label"))
        add(d.get("url"))
        add(d.get("title"))
    return c


DEF_START = re.compile(r"(?m)^[ \t>*+\-0-9.)]*\[((?:[^\[\]\\]|\\.)+)\]:")


def repeated_definition_at(d):
    """offset of the first line that starts like a link reference definition with a label that an earlier such line carries already
    (labels compared as the parser does: case folded, white-space runs collapsed), or None.  A repeated definition is ignored as a
    whole - the first one wins (C12) - and its words are what the theorem calls the dropped duplicates: outside the claim"""
    seen = set()
    for mm in DEF_START.finditer(d):
        key = " ".join(mm.group(1).split()).lower()
        if key in seen:
            return mm.start()
        seen.add(key)
    return None


def check_doc(m, doc, plugins, fails, shrink=True):
    md = m.create_markdown(renderer=None, plugins=plugins)

    def problems(d):
        toks, state = md.parse(d)
        have = tree_words(toks, state.env, m.escape_url)
        want = collections.Counter(re.findall(r"[wxX]\d+q", d))
        # a reference link carries its label both as 'label' and (through the definition) in env: the use-site label is one occurrence
        lost = {w: n for w, n in want.items() if have.get(w, 0) < n}
        if lost:
            at = repeated_definition_at(d)
            if at is not None:
                lost = {w: n for w, n in lost.items() if d.find(w) < at}
        dup = {w: have[w] for w in have if have[w] > want.get(w, 0)}
        return lost, dup
    try:
        lost, dup = problems(doc)
    except Exception:  # C01's business
        return False
    if lost or dup:
        if shrink:
            def bad(x):
                l, d = problems(x)
                return bool(l) == bool(lost) and bool(d) == bool(dup) and (l or d)
            doc2 = shrink_text(doc, bad, 250)
            lost, dup = problems(doc2)
            doc = doc2
        fails.append({"input": doc, "plugins": plugins, "kind": "text-lost" if lost else "text-duplicated",
                      "lost": sorted(lost)[:6], "duplicated": sorted(dup)[:6]})
    return True


ALPH = list(" \t\n>#!:\\ab1*-") + ["  ", "   ", "    ", "\n\n", "> ", " \n", "\\*", "! "]


def correspondence(ctx):
    """the block parser model against BlockParser (token trees and reference tables), and the sub/replace model against CPython"""
    import corr_block
    a = _sub_correspondence(ctx)
    b = corr_block.run(ctx, ctx.n(1500, 20000))
    return {"evaluations": a["evaluations"] + b["evaluations"], "disagreements": (b["disagreements"] + a["disagreements"])[:20],
            "parts": {"sub/replace call sites": a["evaluations"], "block parser model (tokens and table)": b["evaluations"]},
            "sites": a.get("sites"), "samples": a.get("samples", [])}


def _sub_correspondence(ctx):
    """the model of Pattern.sub / str.replace against CPython on the patterns and replacements of the call sites"""
    import translate
    subs, reps, _d, _n = translate.collect_subsites()
    pats = {n: (p, f) for n, p, f in translate.all_patterns()}
    r = ctx.rng("corr")
    reqs, want, what = [], [], []
    per = max(4, ctx.n(1500, 30000) // max(1, len(subs) + len(reps)))
    for where, pname, k in subs:
        mk = re.match(r"RConst \[(.*)\]$", k)
        mg = re.match(r"RGroupThen (\d+)%nat \[(.*)\]$", k)
        mp = re.match(r"RGroupPad (\d+)%nat (\d+)%nat$", k)
        lit = lambda t: "".join(chr(int(x)) for x in t.split(";") if x.strip())  # noqa: E731
        for _ in range(per):
            subj = "".join(r.choice(ALPH) for _ in range(r.randint(0, 14)))
            if pname is None:
                n = r.randint(1, 5)
                cre = re.compile("^ {0," + str(n) + "}", re.M)
                pat = n
            else:
                cre = re.compile(pats[pname][0], pats[pname][1])
                pat = pname
            if mk:
                enc, py = [0, 0, lit(mk.group(1)), 0], lit(mk.group(1))
            elif mg:
                enc, py = [1, int(mg.group(1)), lit(mg.group(2)), 0], "\\%s" % mg.group(1) + lit(mg.group(2))
            else:
                g, w = int(mp.group(1)), int(mp.group(2))
                enc = [2, g, "", w]
                py = (lambda g, w: lambda m: m.group(g) + " " * (w - len(m.group(g))))(g, w)
            reqs.append(("sub", [pat, enc, subj]))
            want.append(cre.sub(py, subj))
            what.append((where, subj))
    for where, old, new, once in reps:
        for _ in range(per):
            subj = "".join(r.choice(ALPH + ["\r", "\r\n", ":", "\\ "]) for _ in range(r.randint(0, 14)))
            o = old if old is not None else " " * r.randint(1, 5)
            reqs.append(("replace", [o, new, bool(once), subj]))
            want.append(subj.replace(o, new, 1) if once else subj.replace(o, new))
            what.append((where, subj))
    res = run_model(reqs)
    dis = [{"site": w[0], "input": w[1], "model": mv, "impl": iv} for w, mv, iv in zip(what, res, want) if mv != iv]
    return {"evaluations": len(reqs), "disagreements": dis[:20], "sites": len(subs) + len(reps),
            "samples": [json.dumps(what[0])]}


def oracle(ctx, extra):
    m = ctx.mistune
    r = ctx.rng("oracle")
    fails = []
    n = 0
    words = 0
    seen = set()
    # corner documents accounted on every run (the sampled ones meet them only now and then): references that RESOLVE - full, collapsed
    # and shortcut, as links and images - whose text holds complete links, emphasis, code, brackets; under the core and all plugins
    for base in ["[Wd [Wd](/Wd)][lbl]\n\n[lbl]: /Wd\n", "[Wd *Wd [Wd][lbl]*][lbl]\n\n[lbl]: /Wd 'Wd'\n", "![Wd [Wd](/Wd) Wd][lbl] Wd [lbl] Wd [lbl][]\n\n[lbl]: /Wd\n",
                 "[Wd <http://Wd.Wd> [Wd][lbl]\n\n[lbl]: /Wd\n", "*Wd [Wd `Wd` [Wd]][lbl] Wd*\n\n> [lbl]: /Wd\n", "[Wd ![Wd](/Wd)][lbl] [Wd [Wd] Wd][lbl]\n\n[lbl]: </Wd Wd> (Wd)\n",
                 "- [Wd][lbl] Wd\n- [lbl]: /Wd\n\n# [Wd [Wd](/Wd 'Wd')][lbl]\n"]:
        for plugins in ([], PLUGINS):
            doc, nw = uniquify(base.replace("lbl", "CDATA"), "w")     # (a reserved word is left alone)
            doc = doc.replace("CDATA", "x900q")
            if check_doc(m, doc, plugins, fails):
                n += 1
                words += nw
                seen.add(doc)
    for i in range(ctx.n(3000, 80000)):
        plugins = [] if i % 3 == 0 else (PLUGINS if i % 3 == 1 else r.sample(PLUGINS, r.randint(1, 5)) + (["speedup"] if r.random() < 0.5 else []))
        names = [p for p in plugins if p != "speedup"]
        k = r.random()
        if extra and i < len(extra) and isinstance(extra[i], str):
            base = extra[i]
        elif k < 0.3:
            base = hot_doc(r)
        elif k < 0.55:
            base = gen_docs.doc(r, plugins=names)
        elif k < 0.75:
            base = gen_docs.interaction_doc(r)
        elif k < 0.9:
            base = gen_docs.mutate(r, gen_docs.doc(r, plugins=names))
        else:
            base = gen_docs.noise(r)
        doc, nw = uniquify(base, r.choice("wwwxX"))
        if r.random() < 0.5:
            # words are unique, so no reference would ever meet its definition: let one use site carry the label of one definition
            dm = re.search(r"^ {0,3}\[([wxX]\d+q)\]: ", doc, re.M)
            um = re.search(r"\]\[([wxX]\d+q)\]", doc)
            if dm and um:
                doc = doc[:um.start(1)] + dm.group(1) + doc[um.end(1):]
        if check_doc(m, doc, plugins, fails):
            n += 1
            words += nw
            seen.add(doc)
        if len(fails) >= 5:
            break
    return {"evaluations": n, "distinct_nontrivial": len(seen), "failures": fails, "unique_words_accounted": words,
            "rule": "documents (30% accounting hot spots - spans with complete inline constructs followed by one that straddles the closer, definition lists without a term line, reference definitions with titles on the same / next line, trailing text, multi-line labels, ragged pipe and pipe-less tables, definition lists, HTML blocks of all 7 kinds, fences and indented code, setext and ATX headings, plugin inlines - nested 0-3 levels deep in quotes and list items with lazy continuation lines; 25% generated, 20% interrupt/lazy fragments, 15% mutated, 10% noise) in which every word has been "
                    "replaced by a unique token; configurations: core / 12 plugins without out-of-band definitions / random subsets "
                    "with or without speedup; each token must occur exactly once in the tree (raw, url, title, info, label) or in "
                    "env['ref_links']; failures are shrunk by delta debugging; distinct by text",
            "samples": [json.dumps(uniquify(gen_docs.doc(ctx.rng('s'), plugins=PLUGINS))[0])[:300]]}


def replay(ctx, case):
    c = case.get("case", case)
    fails = []
    check_doc(ctx.mistune, c["input"], c["plugins"], fails, shrink=False)
    return fails[0] if fails else None
