"""C04 — parsing recovers the structure of canonically written documents."""
import json

import canon
from common import shrink_text  # noqa: F401

ID = "C04"
LEVEL = "other"
GEN = ["RxGen", "UnicodeGen", "InlineGen", "BlockGen", "UtilGen", "NormalizeGen"]
COQ = ["Props/C04.vo"]
EXPLANATION = (
    "Oracle-level decision with a proved core. An independent reference printer (tools/canon.py) writes random document "
    "trees of the canonical sub-language as unambiguous CommonMark; the parser's token list (normalised: presentation keys "
    "dropped, adjacent text merged) must equal the tree. Proved (coq/Props/C04.v, by the verified first-character and "
    "must-consume analyses on the regenerated rule patterns): inside a line of plain words no block rule can start and no "
    "inline rule can match, i.e. word text is inert - the fact on which the flat fragment of the canonical language rests. "
    "The full theorem needs the parser model and is not claimed.")
ASSUMPTIONS = ["tools/canon.py (generator, printer, expected normal form) is the statement of 'canonical document'"]
TRUSTED = []
TECHNIQUE = "Coq reflective regex analyses for the inertness of word text; structure recovery by an independent printer/oracle"


def check_tree(m, tree, fails):
    doc = canon.print_doc(tree)
    md = m.create_markdown(renderer=None)
    try:
        got = canon.normalise(md(doc))
    except Exception as e:  # noqa
        fails.append({"input": doc, "kind": "exception", "got": "%s: %s" % (type(e).__name__, e)})
        return
    want = canon.exp_blocks(tree, m.escape_url)
    if got != want:
        f = {"input": doc, "tree": tree, "kind": "structure-not-recovered", "where": canon.first_diff(want, got), "expected": json.dumps(want)[:1500], "got": json.dumps(got)[:1500]}
        import re
        if re.search(r"\*[^*\n]*\\\*", doc):
            f["class"] = "escaped-star-closes-emphasis"
        fails.append(f)


def limit_tree(r):
    """a chain of containers down to the nesting limit (max_nested_level = 6), followed by ordinary nested lists and quotes:
    what the parser does at the limit must not affect the blocks after it"""
    kinds = [r.choice("qbo") for _ in range(r.choice([5, 6, 6]))]
    if kinds[-1] == "q" and r.random() < 0.7:
        kinds[-1] = r.choice("bo")
    inner = [("para", [("text", r.choice(["deep word", "deep", "a deep word here", "w"]))])]
    if r.random() < 0.6:
        # blocks of every kind inside the innermost container: what the parser switches off at the limit are containers only
        inner += r.sample([("hr",), ("heading", 2, [("text", "deep head")]), ("fenced", "```", "", "deep code\n"), ("para", [("text", "last deep")]), ("hr",)], r.randint(1, 3))
    for k in reversed(kinds):
        inner = [("quote", inner)] if k == "q" else [("list", k == "o", 1, False, [inner], "." if k == "o" else "-")]
    tail = [("para", [("text", "sep")]),
            ("list", False, 1, False, [[("para", [("text", "second")]), ("list", True, 7, True, [[("para", [("text", "child a")])], [("para", [("text", "child b")])]], ".")],
                                       [("para", [("text", "x")]), ("quote", [("para", [("text", "q")])])]], "*")]
    return inner + tail + [("hr",)] + canon.gen_blocks(r, 0, n=r.randint(1, 2))


def _old_correspondence(ctx):
    return {"evaluations": 0, "disagreements": [], "note": "no executable parser model yet"}


def oracle(ctx, extra):
    m = ctx.mistune
    r = ctx.rng("oracle")
    fails = []
    n = 0
    seen = set()
    for i in range(ctx.n(3000, 60000)):
        tree = limit_tree(r) if i % 40 == 7 else canon.gen_blocks(r, 0, plain=(i % 5 == 0))
        check_tree(m, tree, fails)
        n += 1
        seen.add(json.dumps(tree))
        if len([f for f in fails if not f.get("class")]) >= 5:
            break
    known = [f for f in fails if f.get("class")]
    fails = [f for f in fails if not f.get("class")] + known[:3]
    return {"evaluations": n, "distinct_nontrivial": len(seen), "failures": fails, "known_finding_instances": len(known),
            "rule": "random document trees: headings 1-6, paragraphs, fenced (3 fence kinds, info) and indented code, thematic "
                    "breaks, HTML blocks, block quotes, bullet/ordered (start 1,2,7,10) tight/loose lists nested up to depth 3; "
                    "inline: words, emphasis, strong, code spans, links with titles, images, autolinks, inline HTML, backslash "
                    "escapes, soft and hard breaks, nested up to depth 3 (every 5th tree with plain-word text only; every 40th a chain of 5-6 containers down to the nesting limit followed by ordinary nested lists and quotes); printed by "
                    "the reference printer, parsed with renderer=None, compared after normalisation; distinct by tree",
            "samples": [json.dumps(canon.print_doc(canon.gen_blocks(ctx.rng('s'))))[:300]]}


def check_known(ctx, k):
    """the listed finding still reproduces iff the wrong output it records is still produced"""
    out = ctx.mistune.create_markdown()(k["input"])
    return k["wrong"] in out


def classify(f, known):
    for k in known:
        if k["id"] == f.get("class"):
            return k["id"]
    return None


def replay(ctx, case):
    c = case.get("case", case)
    fails = []
    check_tree(ctx.mistune, c["tree"], fails)
    return fails[0] if fails else None


def correspondence(ctx):
    import corr_block
    import corr_inline
    a = corr_inline.run(ctx, ctx.n(1500, 20000))
    b = corr_block.run(ctx, ctx.n(1200, 20000))
    return {"evaluations": a["evaluations"] + b["evaluations"], "disagreements": (a["disagreements"] + b["disagreements"])[:20],
            "parts": {"inline model": a["evaluations"], "block model": b["evaluations"]}, "samples": a["samples"]}
