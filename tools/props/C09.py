"""C09 — the speedup plugin never changes the output."""
import json

import corr_rx
import gen_docs
from common import shrink_text

ID = "C09"
LEVEL = "other"
GEN = ["SpeedupGen", "UtilGen", "UnicodeGen", "RxGen"]
COQ = ["Props/C09.vo"]
EXPLANATION = (
    "PARTIAL proof + differential oracle. Proved (coq/Props/C09.v, all texts, all plugins loaded, hard_wrap on/off): H1 - no "
    "inline rule other than speedup's text rule can match at a position whose character is not one of the stop characters "
    "(plus 'h' for url_link and space/newline for the two break rules), by the verified first-character analysis on the "
    "regenerated rule table, so skipping runs of ordinary characters loses no match; H2 - escaped text rendering is a "
    "monoid morphism, so the finer segmentation into text tokens is invisible. Refuted in Coq with a witness: H2 for "
    "escape=False. NOT proved: the composition into 'byte-identical HTML' (needs the full inline/block model) and the "
    "block-side fast paragraph, which is false on the pinned tree (known findings). The oracle compares HTML with/without "
    "speedup and classifies differences by re-running with only the block half / only the inline half of the plugin.")
ASSUMPTIONS = ["speedup is registered last (the property's 'adding speedup to a configuration'); plugin order "
               "['speedup','url'] is a separate known finding",
               "inline handlers behave identically on identical matches (model of handlers not part of this proof)"]
TRUSTED = ["tools/skeletons/speedup_*.txt"]
TECHNIQUE = "Coq reflective first-character analysis (H1) + morphism lemma (H2); remaining clauses by differential testing"


def _variants(m, plugins, hard_wrap, escape):
    def real(x):
        if x in ("toc:fenced", "toc:rst"):
            from mistune.directives import FencedDirective, RSTDirective, TableOfContents
            return (FencedDirective if x == "toc:fenced" else RSTDirective)([TableOfContents()])
        return x

    def mk(kind):
        ps = [real(x) for x in plugins] + (["speedup"] if kind != "without" else [])
        if kind == "with-first":
            ps = ["speedup"] + [real(x) for x in plugins]
        md = m.create_markdown(plugins=ps, hard_wrap=hard_wrap, escape=escape)
        if kind == "inline-only":
            md.block.rules.remove("paragraph")
            md.block._Parser__sc.clear()
        elif kind == "block-only":
            md.inline.rules.remove("text")
            md.inline._Parser__sc.clear()
        return md
    return mk


def classify_case(m, c):
    mk = _variants(m, c["plugins"], c["hard_wrap"], c["escape"])
    d = c["input"]
    try:
        wo, wi = mk("without")(d), mk("with")(d)
        bo, io = mk("block-only")(d), mk("inline-only")(d)
    except Exception:  # noqa
        return None
    # mechanism of the known finding: a pipe-less table whose header line begins with a letter, directly below a paragraph line
    # (the fast paragraph rule takes every run of letter-initial lines): the table is lost
    if bo != wo and io == wo and "table" in c["plugins"] and wo.count("<table") > bo.count("<table"):
        return "speedup-paragraph-swallows-plugin-block"
    if io != wo and bo == wo and not c["escape"] and "&" in d:
        return "noescape-entity-split"
    import re
    if io != wo and bo == wo and re.search(r"\n[ \t]* {2,}\n", d) and wi.count("<br />") > wo.count("<br />"):
        return "blank-indented-line-becomes-hard-break"
    if io != wo and bo == wo and "abbr" in c["plugins"]:
        # the abbr plugin looks for its keys inside one text token at a time; speedup cuts text tokens at its stop characters and
        # keeps line breaks inside them.  Only for keys that themselves hold a stop character or a line break.
        keys = re.findall(r"^ {0,3}\*\[((?:[^\\\[\]]|\\.)+)\]:", d, re.M)
        stops = set("\\><![_*`~^$=\n")
        try:
            ps = [x for x in c["plugins"] if x != "abbr"]
            mk2 = _variants(m, ps, c["hard_wrap"], c["escape"])
            same_without_abbr = mk2("without")(d) == mk2("with")(d)
        except Exception:  # noqa
            same_without_abbr = False
        if same_without_abbr and any(set(k) & stops for k in keys) and wi.count("<abbr") + wo.count("<abbr") > 0:
            return "abbr-key-with-stop-character-or-line-break"
    return None


def _first_differs(m, mk, c, d, wa, fails):
    """speedup listed FIRST: the other plugins register their rules after it"""
    try:
        wf = mk("with-first")(d)
    except Exception as e:  # noqa
        wf = "EXC:%s" % type(e).__name__
    if wf == wa:
        return False
    f = dict(c, kind="speedup-listed-first-changes-output", expected=wa[:1200], got=wf[:1200])
    # mechanism of the known finding: url_link and inline_spoiler are appended to the inline rules, i.e. behind speedup's catch-all text
    # rule when speedup is listed before them, and never fire; nothing else may depend on the position of speedup
    late = [x for x in c["plugins"] if x in ("url", "spoiler")]
    if late:
        mk2 = _variants(m, [x for x in c["plugins"] if x not in late], c["hard_wrap"], c["escape"])
        try:
            if mk2("without")(d) == mk2("with-first")(d):
                f["class"] = "speedup-listed-before-url-or-spoiler"
        except Exception:  # noqa
            pass
    fails.append(f)
    return True


def check_one(m, c, fails, shrink=True, shortcut=False):
    mk = _variants(m, c["plugins"], c["hard_wrap"], c["escape"])
    a, b = mk("without"), mk("with")
    d = c["input"]
    try:
        wa = a(d)
    except Exception:
        return False
    try:
        wb = b(d)
    except Exception as e:  # noqa
        wb = "EXC:%s" % type(e).__name__
    if wa != wb:
        if shrink:
            def bad(x):
                try:
                    return a(x) != b(x)
                except Exception:  # noqa
                    return False
            d2 = shrink_text(d, bad, 300)
            c = dict(c, input=d2, original=d)
            wa, wb = a(d2), b(d2)
        f = dict(c, kind="speedup-changes-output", expected=wa[:1200], got=wb[:1200])
        f["class"] = classify_case(m, c)
        fails.append(f)
    elif c["plugins"] and len(d) % 3 == 0 and _first_differs(m, mk, c, d, wa, fails):
        pass
    elif not c["hard_wrap"] and all(isinstance(x, str) and ":" not in x for x in c["plugins"]) and (shortcut or len(d) % 4 == 0):
        # the same through the shortcut mistune.markdown() and its cache of converters (plugins in the caller's order)
        try:
            sa = m.markdown(d, escape=c["escape"], plugins=list(c["plugins"]))
            sb = m.markdown(d, escape=c["escape"], plugins=list(c["plugins"]) + ["speedup"])
        except Exception:  # noqa
            return True
        if sa != sb or sa != wa:
            fails.append(dict(c, kind="speedup-changes-output-of-markdown()", expected=sa[:1200], got=sb[:1200], class_=None))
    return True


def correspondence(ctx):
    import translate
    pats = [p for p in translate.all_patterns() if p[0].startswith(("inline__", "inlinespec", "plugins_speedup"))]
    n, dis, st = corr_rx.conformance(ctx, pats, ctx.n(400, 4000), ctx.n(100, 1500), tag="C09rx")
    return {"evaluations": n, "disagreements": dis, "patterns": len(pats), "samples": [p[0] for p in pats[:4]]}


def oracle(ctx, extra):
    m = ctx.mistune
    r = ctx.rng("oracle")
    fails = []
    n = 0
    seen = set()
    P = gen_docs.ALL_PLUGINS
    # corner documents compared on every run (the sampled ones meet them only now and then): a line between two lines of text that
    # holds nothing but one kind of wide, zero-width or control white space - what counts as a blank line is the block parser's
    # business, with or without the fast paragraph rule
    for ws in gen_docs.EDGE_WS + [" ", "\t", "  \t ", "\x0b\x0c", "\u200b\u2060\ufeff", "\x00", "\x7f"]:
        for doc in ["First line\n%s\nSecond line\n" % ws, "a\n%s\n%s\nb\n\n> q\n> %s\n> r\n" % (ws, ws, ws), "- i\n%s\n- j\n\nx %s\ny\n%s z\n" % (ws, ws, ws)]:
            for plugins, hw in (([], False), (["strikethrough", "footnotes", "table"], True)):
                if check_one(m, {"input": doc, "plugins": plugins, "hard_wrap": hw, "escape": True}, fails):
                    n += 1
                    seen.add(doc)
    for i in range(ctx.n(4000, 100000)):
        k = r.random()
        if extra and i < len(extra) and isinstance(extra[i], str):
            doc = extra[i]
        elif k < 0.5:
            doc = gen_docs.doc(r, plugins=P)
        elif k < 0.6:
            doc = gen_docs.interaction_doc(r)
        elif k < 0.7:
            doc = r.choice([gen_docs.wrapped_doc, gen_docs.wrapped_doc, gen_docs.tab_doc, gen_docs.long_run_doc])(r)
        elif k < 0.85:
            # dense in stop characters, white space and breaks
            doc = "".join(r.choice(["a", "b ", " ", "  ", "\n", "  \n", "\\\n", "\t", "*", "_", "`", "[", "]", "<", ">", "!", "~", "^", "$", "=",
                                    "\\", "&", "&amp;", ";", "http://x.y", "https://a.b/c", "http:", "h", "Https://x.y/z", "HTTP://a.b", "see hTTps://q.r ", "HTTPS:", "x|y", "\n\n", "1", "-", "+", ". ", "é", " ", "	"])
                          for _ in range(r.randint(1, 40)))
        else:
            doc = gen_docs.noise(r)
        cfg_k = r.random()
        if 0.6 <= k < 0.7 and cfg_k < 0.6:
            cfg_k = 0.99        # (documents made of plugin constructs are mostly converted with plugins loaded)
        plugins = [] if cfg_k < 0.25 else (["strikethrough", "footnotes", "table"] if cfg_k < 0.4 else (r.sample(P, r.randint(1, 8)) if cfg_k < 0.95 else r.sample(P, len(P))))
        if i % 8 == 1:
            # a table of contents (directive) over headings of every form: the entries are rendered from the heading tokens
            style = r.choice(["fenced", "rst"])
            doc = gen_docs.toc_doc(r, style)
            plugins = [x for x in plugins if isinstance(x, str)] + ["toc:" + style]
        if i % 8 == 3:
            # a document that really uses one plugin's constructs (definitions + uses, wrapped uses), with that plugin enabled
            need, doc = gen_docs.showcase_for(r)
            plugins = need + [x for x in plugins if x not in need]
        c = {"input": doc, "plugins": plugins, "hard_wrap": r.random() < 0.35, "escape": r.random() < 0.75}
        if check_one(m, c, fails):
            n += 1
            seen.add(doc)
        if len([f for f in fails if not f.get("class")]) >= 5:
            break
    known = [f for f in fails if f.get("class")]
    fails = [f for f in fails if not f.get("class")] + known[:4]
    return {"evaluations": n, "distinct_nontrivial": len(seen), "failures": fails, "known_finding_instances": len(known),
            "known_by_class": {k: sum(1 for f in known if f["class"] == k) for k in {f["class"] for f in known}},
            "rule": "documents: 50% generated with all plugin syntaxes, 10% interrupt/lazy fragments, 10% wrapped paragraphs (continuation lines indented by 0-5 spaces or tabs, inline constructs straddling the line break), tab-indented containers and constructs whose repeatable part is repeated 9-129 times, 15% strings dense in stop "
                    "characters / white space / hard and soft breaks / URLs / entities, 15% noise; every 8th a showcase of one plugin's constructs with that plugin enabled (abbreviations with multi-word, prefix and stop-character keys, uses wrapped over two lines), every 8th a table-of-contents directive over headings of every form (also setext headings that span two lines); configurations: core (25%), "
                    "mistune.html's own set (15%), 1-8 random plugins (a quarter of the agreeing cases repeated through the shortcut mistune.markdown(), a third with speedup listed first instead of last); hard_wrap 35%, escape=False 25%; HTML compared with "
                    "plugins=P vs P+['speedup']; a difference is shrunk by delta debugging and classified by re-running with "
                    "only the block half / only the inline half of speedup",
            "samples": [json.dumps(gen_docs.interaction_doc(ctx.rng('s')))]}


def check_known(ctx, k):
    """does the listed finding still reproduce on the tree under test?"""
    cfg = k.get("config", {})
    c = {"input": k["input"], "plugins": cfg.get("plugins", []), "hard_wrap": cfg.get("hard_wrap", False), "escape": cfg.get("escape", True)}
    fails = []
    if cfg.get("first"):
        mk = _variants(ctx.mistune, c["plugins"], c["hard_wrap"], c["escape"])
        return _first_differs(ctx.mistune, mk, c, c["input"], mk("without")(c["input"]), fails)
    check_one(ctx.mistune, c, fails, shrink=False)
    return bool(fails)


def classify(f, known):
    for k in known:
        if k["id"] == f.get("class"):
            return k["id"]
    return None


def replay(ctx, case):
    c = case.get("case", case)
    fails = []
    check_one(ctx.mistune, {k: c[k] for k in ("input", "plugins", "hard_wrap", "escape")}, fails, shrink=False)
    return fails[0] if fails else None
