"""C07 — conversion work grows at most quadratically with input size."""
import concurrent.futures as cf
import json
import re
import threading

import gen_docs
import pumpgen
from common import run_model
from workers import Worker

ID = "C07"
LEVEL = "other"
GEN = ["RxGen", "UnicodeGen"]
COQ = ["Props/C07.vo"]
EXPLANATION = (
    "PARTIAL proof + measurement. Time is a property of the running interpreter and is not modelled. Proved "
    "(coq/Props/C07.v), for every input: (1) the scanner loops perform at most (length - cursor) iterations; (2) the "
    "step-counting matcher used for the measurements returns exactly the results of the verified engine (so its counts are "
    "the work of the engine the other theorems are about); (3) in every regenerated pattern except four listed ones, every "
    "alternation that a repeat can enter more than once has pairwise exclusive alternatives - from no position can two of "
    "them both consume (sound first-set analysis); the failure of this condition is the classic source of exponential "
    "backtracking, and a new overlap breaks the sweep; (4) in every regenerated pattern except seven listed ones, no repeat that can "
    "iterate more than once has a body that can end in an unbounded repeat of a class and begin with a character of the same class "
    "- the shape (x+)+, where one run is cut into iterations in exponentially many ways (Proofs/RxNest.v: class disjointness "
    "proved sound against the class semantics of the engine, C07_iterations_have_one_boundary). The growth rate is decided by the oracle: (a) deterministic: for every "
    "repeat of every pattern a structure-directed pump (prefix reaching the repeat, unit = a sample of its body or of its "
    "alternatives, failing suffix) is run on the counting model at two sizes; super-quadratic growth makes a candidate; "
    "(b) candidates, a corpus of classic shapes and sampled token pumps prefix + unit^n + suffix are converted by the real "
    "library in isolated workers at n, 2n, 4n(, 8n) and the CPU-time ratios and absolute times are compared with the "
    "quadratic budget.")
ASSUMPTIONS = ["quadratic budget: t(4n)/t(n) <= 40 (16 = exactly quadratic, 64 = cubic) confirmed at two scales with t >= 0.25 s; "
               "absolute budget: an input of at most 5000 characters converts within 10 s of CPU time",
               "CPU time (time.process_time) of one conversion in a warm worker; minimum of 2 runs"]
TRUSTED = ["tools/worker.py, tools/workers.py, tools/pumpgen.py"]
TECHNIQUE = "Coq: iteration bound, counted engine = engine, exclusive alternatives under repeats and no repeat ending where it begins (regenerated sweeps); growth by model step counts and CPU-time ratios on pumped inputs"

P = gen_docs.ALL_PLUGINS
CONFIGS = [
    {"renderer": "html"},
    {"renderer": "html", "plugins": P},
    {"renderer": "html", "plugins": P + ["speedup"]},
    {"renderer": "html", "plugins": ["table", "footnotes"], "directives": "rst"},
    {"renderer": "html", "plugins": ["def_list", "spoiler"], "directives": "fenced"},
    {"renderer": "html", "hard_wrap": True, "plugins": ["url", "math", "ruby"], "directives": "colon"},
]

TOKENS = list("*_`[]()<>!#-+=~^$|:\\\"'&;.@/{}% \n\ta1") + ["> ", "- ", "1. ", "```", "[^a]", "]: ", "](", "<a>", "<a ", "-->", "<!--", "&amp;", "\\\\", "$$",
                                                       "|-|", ": ", "  ", "    ", "\n\n", ">!", "!<", "~~", "==", "^^", "*a", "_a", "`a", "[a", "a]", "\\a", "\\!", ".. ", "::", "{a}"]
PREFIXES = ["", "", "", "x ", "- a\n", "1. a\n", "> a\n", "t\n: a\n", "- a\n  ", "[", "[a](", "[a](b ", "[a](b \"", "[a](b '", "[a]: /u \"", "[a]: ", "[a]: <", "<", "<a ", "<a b=", "<a b=\"", "<!--", "`", "```\n", "*", "**",
            "> ", "- ", "1. ", "| a |\n|---|\n", "a | b\n--- | ---\n", "[^", "[^a]: ", "*[", "x ~", "x ^", "$", "$$\n", "x >!", ">! ", "term\n: ", ".. note:: ", "```{note} ",
            "# ", "    ", "<div>\n", "![", "https://", "x@", "&", "\\"]
SUFFIXES = ["", "", "", "\n", "  b\n", "    b\n", "\n  b\n", "> b\n", "]", ")", ">", "`", "*", " x", "\"", "\n\nx", "!<", "~", "^", "$", "|", "-->", "\n```\n", "\x01"]

# whole tokens of every inline plugin syntax (a run of adjacent complete tokens is a pump of its own)
PLUGIN_UNITS = ["[a(b)]", "[a(b)c(d)]", "[^a]", "[^a] ", "$a$", "$a$ ", ">!a!<", "~a~", "^a^", "~~a~~", "==a==", "^^a^^", "A ", "http://a.b ", "<http://a.b>", "a@b.c ",
                "`a`", "*a*", "**a**", "[a](b)", "![a](b)", "[a][r]", "<b>", "&amp;", "\\*"]
# patterns that are compiled from document data (the abbreviation scanner is an alternation of the defined keys): keys with white-space
# runs, wrapped keys, keys that are prefixes of each other, followed by a run that begins like a key and never completes it
DATA_KEYS = ["World Wide Web", "World  Wide   Web", "World Wide\n    Web Consortium", "A\tB\t\tC", "a a a a", "ab", "x.y*"]
DATA_PUMPS = [("*[%s]: t\n*[%s]: t2\n\nThe %s" % (k, k.split()[0], " ".join(k.split()[:j])), u, "x\n")
              for k in DATA_KEYS for j in range(1, len(k.split()) + 1) for u in ((" ", "\t", " " + k.split()[0]) if j < len(k.split()) else (" ", k.split()[0][:1]))]
# lazy continuation lines below nested containers (each line is looked at by every open container)
LAZY_PUMPS = [(pre, unit, "") for pre in (">>", "> > ", ">>>", "> > > > ", "> - ", "- > ", "1. > - ", "> > - > ", ">! >! ") for unit in ("a\n", "a b\n", "*a\n")]
# containers and blocks that interrupt each other line after line (each block is parsed in place by the one it interrupts: a handler that
# runs twice per interruption doubles the work with every line)
LAZY_PUMPS += [("", unit, "") for unit in ("> a\n- b\n", "- a\n> b\n", "> a\n1. b\n", "> a\n***\n", "- a\n# h\n", "> a\n```\nc\n```\n", "- a\n<div>\n\n", ">! a\n- b\n",
                                          "> a\n- b\n> c\n1. d\n", "- a\n> b\n***\n")]
CLASSIC = LAZY_PUMPS + [("", u, "") for u in PLUGIN_UNITS] + [("", u, "\n\n[r]: /u\n[^a]: n\n*[A]: x\n") for u in PLUGIN_UNITS[:12]] + DATA_PUMPS + [
    ("[a](b \"", "\\!", ""), ("[a]: /u '", "\\'", ""), ("[", "\\a", ""), ("[", "\\a", "] x"), ("[^", "\\a", ""), ("a", " ", "b"), ("a", "\t", "b"), ("", "a ", "\n"),
    ("", "[", ""), ("", "![", ""), ("", "[a](", ""), ("", "*a ", ""), ("", "**a ", ""), ("", "_a_", ""), ("", "*", "a"), ("", "`", "a"), ("", "` `` ", ""), ("", "<", ""),
    ("", "<a ", ""), ("<a", " b", ""), ("<a b=\"", "c ", ""), ("<!--", "-", ""), ("", "&", ""), ("", "&a", ""), ("", "\\", ""), ("", "> ", "x"), ("", "- ", "x"),
    ("", ">", ""), ("", "1. ", "x"), ("", "- a\n", ""), ("", "> a\n", ""), ("", "a\n", ""), ("", "a\n\n", ""), ("", "#", ""), ("# ", "#", ""), ("", "-", ""), ("", "- ", ""),
    ("", "=", ""), ("a\n", "=", "x"), ("", "|", ""), ("|a|\n|-|\n", "|", ""), ("a|b\n-|-\n", "a|", ""), ("|", "a|", "\n|-|"), ("", "[^a]", ""), ("[^a]: ", "x\n    ", ""),
    ("", "~", ""), ("x ~", "\\~", " "), ("x ^", "a\\ ", ""), ("", "$", ""), ("$", "a ", ""), ("x >!", " ", "y"), (">!", "a", ""), ("", ">!a", ""), ("", "!<", ""),
    ("t\n", ": d\n", ""), ("t\n: ", "a\n", ""), ("t\n: a\n", "\n", "b"), ("", "*[a]: b\n", ""), ("*[", "a", ""), ("", "http://a ", ""), ("https://", "a.", ""),
    ("", "x@a.", ""), ("<", "a@", ">"), ("<a@b", ".c", ""), ("[", "a(b)", "]"), ("[a(", "b", ")]"), (".. note:: ", "a", "\n"), (".. note::\n", "   :a: b\n", ""),
    ("```{note}\n", ":a: b\n", "```"), ("```", "a", "\n"), ("```\n", "a\n", ""), ("", "```\n", ""), ("~~~", "~", ""), ("    a\n", "\n", "x"), ("    a\n", "    \n", "x"),
    ("", "<div>", ""), ("<div ", "a ", ""), ("<div", " a=b", ">"), ("<div>\n", "a\n", ""), ("<?", "a", ""), ("<![CDATA[", "]", ""), ("<!A", " ", ""), ("", "</a>", ""),
    ("[a]: <", "b", ""), ("[a]:", " ", "b"), ("[a]:\n", " ", "b"), ("[a](<", "b", ""), ("[a](b", " ", ")"), ("[a](b", "(", ""), ("[a](b", "\\)", ""), ("[a](", "\\\\", ")"),
    ("", "[a][", ""), ("[a]", "[]", ""), ("", "[a]\n", ""), ("", "\\\n", ""), ("a", "  \n", ""), ("", "a  \n", ""), ("*", "a*b", ""), ("", "*a*", ""), ("", "***a", ""),
    ("", "_*", "a"), ("**", "a **", ""), ("", "<b>", "</b>"), ("", "{", ""), ("", "%", ""), ("", "a" * 40 + " ", ""),
]


class Pool:
    def __init__(self, k):
        self.local = threading.local()
        self.all = []
        self.lock = threading.Lock()
        self.k = k

    def worker(self):
        w = getattr(self.local, "w", None)
        if w is None:
            w = Worker()
            self.local.w = w
            with self.lock:
                self.all.append(w)
        return w

    def close(self):
        for w in self.all:
            w.close()


def measure(pool, cfg, doc, limit, repeat=2):
    """CPU seconds (minimum of `repeat` runs) or None = no answer within the wall limit / exception marker"""
    w = pool.worker()
    best = None
    for _ in range(repeat):
        res = w.run({"cfg": cfg, "doc": doc}, limit)
        if not res.get("ok"):
            if res.get("exc") == "Timeout":
                return float("inf")
            return None  # an exception is C01's business
        t = res.get("cpu", 0.0)
        best = t if best is None else min(best, t)
        if t > 2.0:
            break
    return best


MAXLEN = 60000
CHAR_BUDGET = 5000
ABS_LIMIT = 10.0
RATIO_LIMIT = 40.0


def judge(pool, cfg, pump, limit=45):
    """returns None when the pump is within budget, else a failure dict"""
    pre, unit, suf = pump

    def doc(n):
        return pre + unit * n + suf
    # absolute budget first: about CHAR_BUDGET characters
    n_abs = max(1, (CHAR_BUDGET - len(pre) - len(suf)) // max(1, len(unit)))
    # growth: find a scale where the time is measurable
    n = 64
    t = measure(pool, cfg, doc(n), limit, 1)
    if t is None:
        return None
    while t < 0.02 and len(doc(n * 2)) <= MAXLEN // 8:
        n *= 2
        t = measure(pool, cfg, doc(n), limit, 1)
        if t is None:
            return None
    if t == float("inf") or (t > ABS_LIMIT and len(doc(n)) <= CHAR_BUDGET):
        # explosive: find the smallest n that exceeds the budget, for the replay
        lo = 1
        while lo < n:
            tt = measure(pool, cfg, doc(lo), limit, 1)
            if tt is None or tt == float("inf") or tt > ABS_LIMIT:
                break
            lo *= 2
        return {"kind": "explosive", "n": lo, "len": len(doc(lo)), "seconds": "> %s" % limit if t == float("inf") else round(t, 2)}
    if t < 0.02:
        # linear-ish even at the largest size: check the absolute budget only
        return None
    ts = {n: measure(pool, cfg, doc(n), limit)}
    for k in (2, 4):
        if len(doc(n * k)) > MAXLEN:
            break
        ts[n * k] = measure(pool, cfg, doc(n * k), limit)
        if ts[n * k] is None:
            return None
        if ts[n * k] == float("inf"):
            break
    sizes = sorted(ts)
    big = sizes[-1]
    if ts[big] == float("inf"):
        if len(doc(big)) <= CHAR_BUDGET:
            return {"kind": "explosive", "n": big, "len": len(doc(big)), "seconds": "> %s" % limit, "times": {str(k): v for k, v in ts.items() if v != float("inf")}}
        r = None
    else:
        r = ts[big] / max(ts[sizes[0]], 1e-4) if len(sizes) == 3 else None
    fail = None
    if r is not None and r > RATIO_LIMIT and ts[big] >= 0.25:
        # confirm at the next scale
        n8 = big * 2
        if len(doc(n8)) <= MAXLEN * 2:
            t8 = measure(pool, cfg, doc(n8), limit * 2)
            if t8 is not None:
                r2 = (t8 / max(ts[sizes[1]], 1e-4)) if t8 != float("inf") else float("inf")
                if r2 > RATIO_LIMIT:
                    fail = {"kind": "super-quadratic", "n": sizes[0], "ratio_4x": round(r, 1), "ratio_4x_next": ("inf" if r2 == float("inf") else round(r2, 1)),
                            "times": {str(k): round(v, 3) for k, v in ts.items()}}
    if fail is None and ts[big] != float("inf"):
        # absolute budget at about CHAR_BUDGET characters (only worth measuring when the curve says it may be exceeded)
        if len(doc(big)) >= CHAR_BUDGET and ts[big] > ABS_LIMIT * (len(doc(big)) / CHAR_BUDGET) ** 2:
            ta = measure(pool, cfg, doc(n_abs), limit * 2)
            if ta is not None and ta > ABS_LIMIT:
                fail = {"kind": "too-slow", "n": n_abs, "len": len(doc(n_abs)), "seconds": ("> %s" % (limit * 2)) if ta == float("inf") else round(ta, 2)}
    return fail


def _costs(reqs, names):
    """the replies to [reqs] (two per pump, pumps grouped by pattern in [names]); None where the model did not answer in time.
    One process per pattern; when a pattern does not finish within 20 s its pumps are asked one by one with 3 s each."""
    from common import _run_model_1
    groups, start = [], 0
    for i in range(1, len(names) + 1):
        if i == len(names) or names[i] != names[start]:
            groups.append((start, i))
            start = i
    res = [None] * len(reqs)

    def whole(g):
        a, b = g
        try:
            return g, _run_model_1(reqs[2 * a:2 * b], 20)
        except Exception:  # noqa
            return g, None

    def single(i):
        try:
            return i, _run_model_1(reqs[2 * i:2 * i + 2], 3)
        except Exception:  # noqa
            return i, None
    with cf.ThreadPoolExecutor(max_workers=12) as ex:
        slow = []
        for (a, b), out in ex.map(whole, groups):
            if out is None:
                slow += list(range(a, b))
            else:
                res[2 * a:2 * b] = out
        for i, out in ex.map(single, slow):
            if out is not None:
                res[2 * i:2 * i + 2] = out
    return res


def model_candidates(ctx, per_pattern):
    """structure-directed pumps on the counting model: [(growth, name, pump)] with super-quadratic step growth.
    Sizes grow in stages (5/10, 10/20, 24/48); a pump whose count explodes at a small size is a candidate at once and is
    not evaluated at larger sizes (the model would need exponential time as well)."""
    import translate
    r = ctx.rng("model")
    pats = translate.all_patterns()
    live = []
    for name, p, f in pats:
        live += [(name, pump) for pump in pumpgen.pumps_for(p, f)]
    out, n_req, total = [], 0, 0
    for n1, n2, limit, minsteps in ((5, 10, 24.0, 1500), (10, 20, 24.0, 3000), (24, 48, 5.0, 3000)):
        if n2 == 48:
            # the two short stages run on every pump of every pattern (exponential growth shows there); the long one on a sample
            by = {}
            for name, pump in live:
                by.setdefault(name, []).append(pump)
            live = [(name, pump) for name, pumps in by.items()
                    for pump in (pumps if len(pumps) <= per_pattern else r.sample(pumps, per_pattern))]
        reqs = []
        for name, (pre, u, suf) in live:
            reqs.append(("rx_cost", [name, pre + u * n1 + suf, 0]))
            reqs.append(("rx_cost", [name, pre + u * n2 + suf, 0]))
        res = _costs(reqs, [name for name, _pump in live])
        n_req += len(reqs)
        keep = []
        exploded = {}
        for i, (name, pump) in enumerate(live):
            if res[2 * i] is None or res[2 * i + 1] is None:
                # the counting engine itself needs more than seconds on a subject of a few dozen characters: super-polynomial;
                # three pumps per pattern are enough to pursue
                exploded[name] = exploded.get(name, 0) + 1
                if exploded[name] <= 3:
                    out.append((1e9, name, pump))
                continue
            a, b = res[2 * i][1], res[2 * i + 1][1]
            total += a + b
            g = b / max(a, 1)
            if b >= minsteps and g > limit:
                out.append((g * (1000 if n2 < 48 else 1), name, pump))
            else:
                keep.append((name, pump))
        live = keep
    out.sort(key=lambda t: -t[0])
    return out, n_req, total


CONTEXTS = ["", "x ", "[a](b", "[a]: /u", "[a](", "[", "> ", "- ", "<a", "x <a b"]
# (text before, text after): places where the helper functions of the parsers see text that does not end where the document ends
CONTEXT_PAIRS = [("- a\n", "  b\n"), ("- a\n", "\n  b\n"), ("1. a\n", "   b\n"), ("> a\n", "> b\n"), ("> a\n", "b\n"), ("t\n: a\n", "    b\n"),
                 ("- a\n  ", "  b\n"), ("[a](b", ")"), ("[a]: /u", "\nx\n"), ("<a", ">"), ("```\n", "\n```\n"), ("| a |\n|---|\n| ", " |\n"), ("# ", " #\n"),
                 ("[^1]: a\n", "    b\n"), (".. note:: t\n\n   a\n", "   b\n")]


def correspondence(ctx):
    """the counting engine against CPython's re on pumped subjects (result spans), for every pattern"""
    import translate
    r = ctx.rng("corr")
    pats = translate.all_patterns()
    reqs, want, what = [], [], []
    per = ctx.n(12, 150)
    for name, p, f in pats:
        pumps = pumpgen.pumps_for(p, f)
        if not pumps:
            pumps = [("", "a", "")]
        cre = re.compile(p, f)
        for pre, u, suf in (r.sample(pumps, per) if len(pumps) > per else pumps):
            s = pre + u * r.randint(0, 9) + suf
            m = cre.search(s, 0)
            reqs.append(("rx_cost", [name, s, 0]))
            want.append(None if m is None else [m.start(), m.end()])
            what.append((name, s))
    res = run_model(reqs)
    dis = []
    for w, mv, iv in zip(what, res, want):
        got = None if mv[0] is None else [mv[0][0], mv[0][1]]
        if got != iv:
            dis.append({"pattern": w[0], "input": w[1], "model": got, "impl": iv})
    return {"evaluations": len(reqs), "disagreements": dis[:20], "samples": [json.dumps(what[0])]}


def oracle(ctx, extra):
    r = ctx.rng("oracle")
    try:
        cands, n_model, steps = model_candidates(ctx, ctx.n(40, 400))
        model_note = None
    except Exception as e:  # noqa  (the model itself may need exponential time on a broken pattern)
        cands, n_model, steps, model_note = [], 0, 0, "model pump stage failed: %s" % str(e)[:200]
    jobs = []
    # 1. candidates found on the model, placed in contexts that reach the pattern
    seen = set()
    for g, name, (pre, u, suf) in cands[:ctx.n(12, 60)]:
        for c in (CONTEXTS if not ctx.quick else r.sample(CONTEXTS, 4)):
            pump = (c + pre, u, suf)
            if pump not in seen:
                seen.add(pump)
                jobs.append(("model:%s" % name, pump))
        for cp, cs in (CONTEXT_PAIRS if not ctx.quick else r.sample(CONTEXT_PAIRS, 5)):
            pump = (cp + pre, u, suf + cs)
            if pump not in seen:
                seen.add(pump)
                jobs.append(("model:%s" % name, pump))
    # 2. classic shapes
    npu = len(LAZY_PUMPS) + len(PLUGIN_UNITS) + 12 + len(DATA_PUMPS)
    classic = CLASSIC if not ctx.quick else CLASSIC[:npu] + r.sample(CLASSIC[npu:], 40)
    for pump in classic:
        jobs.append(("classic", pump))
    # 3. sampled token pumps
    for _ in range(ctx.n(60, 2500)):
        unit = r.choice(TOKENS) if r.random() < 0.5 else r.choice(TOKENS) + r.choice(TOKENS)
        jobs.append(("sampled", (r.choice(PREFIXES), unit, r.choice(SUFFIXES))))
    for e in extra:
        if isinstance(e, (list, tuple)) and len(e) == 3:
            jobs.insert(0, ("corpus", tuple(e)))
    pool = Pool(12)
    fails = []
    dist = {}
    n = 0

    def run(job):
        src, pump = job
        cfgs = CONFIGS if src != "sampled" else [CONFIGS[r2.randrange(len(CONFIGS))] for r2 in [ctx.rng("cfg" + repr(pump))]]
        out = []
        for cfg in cfgs:
            f = judge(pool, cfg, pump)
            out.append((cfg, f))
            if f:
                break
        return src, pump, out
    try:
        with cf.ThreadPoolExecutor(max_workers=12) as ex:
            for src, pump, out in ex.map(run, jobs):
                dist[src.split(":")[0]] = dist.get(src.split(":")[0], 0) + len(out)
                n += len(out)
                for cfg, f in out:
                    if f:
                        f.update({"prefix": pump[0], "unit": pump[1], "suffix": pump[2], "config": cfg, "source": src,
                                  "input": (pump[0] + pump[1] * f["n"] + pump[2])[:3000]})
                        fails.append(f)
    finally:
        pool.close()
    # one failure per (unit, kind) is enough
    uniq = {}
    for f in fails:
        uniq.setdefault((f["prefix"].strip()[-6:], f["unit"], f["kind"]), f)
    fails = list(uniq.values())[:8]
    return {"evaluations": n, "distinct_nontrivial": n, "failures": fails, "input_distribution": dist,
            "model_pump_evaluations": n_model, "model_note": model_note, "model_character_tests": steps, "model_candidates": [[round(g, 1), nm, list(p)] for g, nm, p in cands[:15]],
            "rule": "pumps prefix + unit^n + suffix: (1) super-quadratic candidates from the counting model (every repeat of every pattern, "
                    "sizes 5/10, 10/20, 24/48) in 10 prefix contexts and 15 (before, after) contexts; (2) %d classic shapes, among them lazy continuation lines below nested containers, a run of whole tokens of every inline plugin syntax and pumps below abbreviation definitions whose keys hold white-space runs (the abbreviation scanner is compiled from document data); (3) sampled units of one or two of %d Markdown tokens with "
                    "%d prefixes and %d suffixes; each under the configurations core / all plugins / all+speedup / rst, fenced and colon "
                    "directive mixes (sampled pumps: one configuration); CPU time in isolated workers at n, 2n, 4n with n chosen so that "
                    "t(n) >= 20 ms, ratio budget 40 confirmed at 8n/2n, absolute budget 10 s per 5000 characters"
                    % (len(CLASSIC), len(TOKENS), len(PREFIXES), len(SUFFIXES)),
            "samples": [json.dumps(CLASSIC[0])]}


def classify(f, known):
    for k in known:
        if k.get("unit") == f.get("unit") and k.get("prefix_tail", "") == f.get("prefix", "").strip()[-len(k.get("prefix_tail", "")):] or False:
            return k["id"]
    return None


def check_known(ctx, k):
    pool = Pool(1)
    try:
        return judge(pool, k["config"], (k["prefix"], k["unit"], k["suffix"])) is not None
    finally:
        pool.close()


def replay(ctx, case):
    c = case.get("case", case)
    pool = Pool(1)
    try:
        return judge(pool, c["config"], (c["prefix"], c["unit"], c["suffix"]))
    finally:
        pool.close()
