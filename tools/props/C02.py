"""C02 — escaped HTML output carries no input-controlled markup or script URLs."""
import html as htmlmod
import importlib
import inspect
import json
import os
import re
from html.parser import HTMLParser

import gen_docs
from common import run_model

ID = "C02"
LEVEL = "proof"
GEN = ["TmplGen", "UtilGen", "RxGen", "UnicodeGen", "InlineGen", "BlockGen", "NormalizeGen", "SafeGen"]
COQ = ["Props/C02.vo"]
EXPLANATION = (
    "Every HTML render function (20 HTMLRenderer methods, 32 plugin/directive functions) is translated from its Python "
    "source into a template (decision tree over segment lists) and checked, for every feasible shape with the escape flag "
    "on, by a checker proved sound in coq/Proofs/TmplCheck.v: for all argument values, every piece that comes from a "
    "parameter is read by an HTML context machine in character data or inside a double-quoted attribute value (tag "
    "position only for safe-by-construction values such as the heading level), contains none of < > \" (raw text must pass "
    "escape/safe_entity/safe_url; destinations must pass safe_url; x.isdigit() guards are understood), and the reader "
    "returns to character data: the elements and attributes of the output are exactly those spelled by template "
    "literals (C02_no_injected_markup). WHOLE DOCUMENTS: for the executable model of the complete conversion to HTML "
    "(coq/Model/Inline.v, Block.v, Doc.v, HtmlDoc.v: core configuration, and core plus the inline plugins strikethrough, mark, "
    "insert, superscript, subscript, url; tied by control skeletons with constants, regenerated rule data and AST / HTML "
    "correspondence runs) the induction over the token tree is carried out: for every document every token at every "
    "depth is rendered by a call with that reading property - the children hypothesis is discharged, not assumed - and "
    "the complete output returns the reader to character data (C02_whole_document_no_injected_markup). URL clause: the value a browser reads back from safe_url's output is the input or "
    "'#harmful-link', never a harmful scheme (C02_no_script_url, protocol lists regenerated). Safe-by-construction "
    "parameters from regexes are justified by the verified 'avoids' analysis (ruby); enumerated parameters (image/figure align, admonition name) come from regenerated fixed lists of lower-case words, and the code that validates them, sets the toc collapse flag and the task-list checked flag is tied by control skeletons with constants (SafeGen, C02_enumerated_values_are_safe).")
ASSUMPTIONS = [
    "parameter kinds are the specification tools/spec/render_sigs.json; 'html' parameters are rendered children "
    "(the induction over the token tree is proved for the modelled configurations, and is the hypothesis children_ok for the other plugin and directive tokens) - incl. block_error.text (escaped where it is built, "
    "fix cf1c277/843dd67) and the two string-surgery sites (footnote_item, task_list_item), whose filtered children are "
    "assumed to remain fragments (covered by the oracle)",
    "that the parsers only hand 'safe' values to safe parameters (levels, indexes, aligns from fixed lists, admonition "
    "names from [a-zA-Z0-9_-]+, ids from the toc hook) is parser behaviour: covered by the payload oracle",
    "the three-state context machine (data / tag / double-quoted value) is the reading model of the output"]
TRUSTED = ["tools/tmplgen.py (symbolic execution of the render functions), validated by the render correspondence",
           "tools/spec/render_sigs.json"]

HTML_VALUES = ["", "x", "<em>a</em>", "<p>para</p>\n", "<p>a</p>\n<p>b &amp; c</p>\n", "text &lt;b&gt;", "<li>i</li>\n", "<p>ends with p</p>"]
RAW_VALUES = ["", "plain", "a<b>c", "q\"uote", "&amp; &lt; &#34; &quot", "x' onmouseover='y", "  lead trail  ", "py thon", "<script>alert(1)</script>",
              "é😀", "a&b;c", "\"><img src=x onerror=y>", "100", "5em", "1\" onload=\"x", "&#x22;&gt;", "--><!--", "\\", "tab\tsep"]
URL_VALUES = ["/a", "http://x.y/z?a=b&c=d", "javascript:alert(1)", "JaVaScRiPt:x", "vbscript:x", "file:///etc", "data:text/html,x",
              "data:image/png;base64,AA", "data:IMAGE/GIF;x", "#frag", "", "a\"b", "javascript&colon;x", "java\tscript:x", " javascript:x", "x<y>"]
SAFE = {"level": [1, 2, 6], "index": [1, 12], "ordered": [True, False], "start": [None, 1, 7, 0], "id": [None, "toc_1", "toc_12"],
        "align": [None, "left", "center", "right"], "head": [True, False], "checked": [True, False], "collapse": [True, False],
        "name": ["note", "warning"], "text": ["漢字", "kanji_1"], "rt": ["かん じ", "reading"]}


def _functions(m):
    """qualified name -> (callable taking kwargs by parameter name)"""
    out = {}
    with open(os.path.join(os.path.dirname(os.path.dirname(os.path.abspath(__file__))), "spec", "render_sigs.json")) as f:
        sigs = json.load(f)
    for q, sig in sigs.items():
        if q in ("comment", "regex_safe"):
            continue
        mod, fn = q.split(".")
        out[q] = (mod, fn, sig)
    return out


def _call(m, q, mod, fn, kwargs, escape):
    r = m.HTMLRenderer(escape=escape)
    if mod == "html":
        f = getattr(r, fn)
        pos = [p for p in inspect.signature(f).parameters if p in kwargs]
    else:
        modname = {"formatting": "mistune.plugins.formatting", "footnotes": "mistune.plugins.footnotes", "table": "mistune.plugins.table",
                   "abbr": "mistune.plugins.abbr", "def_list": "mistune.plugins.def_list", "math": "mistune.plugins.math",
                   "ruby": "mistune.plugins.ruby", "task_lists": "mistune.plugins.task_lists", "spoiler": "mistune.plugins.spoiler",
                   "admonition": "mistune.directives.admonition", "image": "mistune.directives.image",
                   "include": "mistune.directives.include", "toc": "mistune.directives.toc"}[mod]
        g = getattr(importlib.import_module(modname), fn)
        f = lambda **kw: g(r, **kw)  # noqa
    kw = {k: v for k, v in kwargs.items() if not (v is None and k in ("id", "start", "class", "target", "toc"))}
    if q == "toc.render_html_toc":
        kw["toc"] = []
    return f(**kw)


def _gen_args(r, q, sig):
    kw = {}
    for p, k in sig.items():
        if k == "html":
            kw[p] = r.choice(HTML_VALUES)
        elif k == "raw":
            kw[p] = r.choice(RAW_VALUES + [None] if p in ("title", "info", "alt", "width", "height", "class", "figwidth", "figclass", "key") else RAW_VALUES)
        elif k == "url":
            kw[p] = r.choice(URL_VALUES) if p != "target" else r.choice(URL_VALUES + [None])
        else:
            kw[p] = r.choice(SAFE[p])
    if q == "toc.render_html_toc":
        kw["toc"] = None
    return kw


def _template_correspondence(ctx):
    m = ctx.mistune
    r = ctx.rng("corr")
    fns = _functions(m)
    reqs, meta = [], []
    # parameter order of the model = order of first use recorded by the translator: recover from TmplGen.v
    import translate
    import tmplgen
    order = {}
    for qname, fn in translate.render_functions():
        tr, _ = tmplgen.translate_function(fn, 1, m.escape)
        order[qname] = tr.params
    for q, (mod, fn, sig) in fns.items():
        for _ in range(ctx.n(40, 600)):
            kw = _gen_args(r, q, sig)
            esc = r.random() < 0.7
            vals = [("" if p == "toc" else kw.get(p)) for p in order[q]]
            reqs.append(("render", [q, esc, vals]))
            meta.append((q, mod, fn, kw, esc))
    for u in URL_VALUES + RAW_VALUES:
        reqs.append(("safe_url", u))
        meta.append(("safe_url", None, None, u, True))
    res = run_model(reqs)
    dis = []
    for (q, mod, fn, kw, esc), mv in zip(meta, res):
        try:
            iv = m.HTMLRenderer().safe_url(kw) if q == "safe_url" else _call(m, q, mod, fn, kw, esc)
        except Exception as e:  # noqa
            iv = "EXC:%s:%s" % (type(e).__name__, e)
        if iv != mv:
            dis.append({"input": {"function": q, "args": kw, "escape": esc}, "model": mv, "impl": iv})
            if len(dis) > 25:
                break
    return {"evaluations": len(reqs), "disagreements": dis, "functions": len(fns), "samples": [json.dumps(meta[0][3], default=str)]}


# ------------------------------------------------------------------ payload oracle
PAY = ['<x9 y9="1">', '"><x9>', "' z9='1", '" z9="1', "<script>x9()</script>", "&lt;x9&gt;", "<!--x9-->", "</p><x9>", "<x9", "x9>", "&#60;x9&#62;",
       "&#x3c;x9 y9&#x3d;1&#x3e;", "&amp;lt;x9&amp;gt;"]
PAYURL = ["javascript:x9()", "JAVASCRIPT:x9", "vbscript:x9", "data:text/html,<x9>", "file:///x9", "javascript:void(0)", "javascript:void(1)", "data:image/svg+xml,<x9>", "file:///srv/x9", "javascript&colon;x9", "javascript&#58;x9",
          "javascript&amp;colon;x9", "&#106;avascript:x9", "java&#9;script:x9", "jav&#x61;script&amp;#58;x9",
          # what a browser removes before it looks at the scheme: leading C0 controls and spaces, tabs and newlines anywhere
          "\tjavascript:x9", "java\tscript:x9", "\x01javascript:x9", "\x0cjavascript:x9", "\x1fvbscript:x9", "javascript\t:x9"]

ALLOWED_TAGS = None


ALLOW_PREFIXES = ["javascript:void(0)", "data:image/svg+xml;", "FILE:///srv/"]     # what the caller of one configuration allowed explicitly


class Reader(HTMLParser):
    def __init__(self, allowed=()):
        super().__init__(convert_charrefs=True)
        self.tags = []
        self.bad = []
        self.allowed = tuple(a.lower() for a in allowed)

    def handle_starttag(self, tag, attrs):
        self.tags.append(tag)
        if tag == "x9" or tag.startswith("x9"):
            self.bad.append(("element", tag))
        for k, v in attrs:
            if k in ("y9", "z9") or k.startswith("on"):
                self.bad.append(("attribute", tag, k))
            if k in ("href", "src") and v is not None:
                vv = v.strip("".join(map(chr, range(0x21)))).lower()      # leading and trailing C0 controls and space
                vv2 = re.sub(r"[\t\n\r]", "", vv)
                for scheme in ("javascript:", "vbscript:", "file:", "data:"):
                    if vv2.startswith(scheme) and not vv2.startswith(("data:image/gif;", "data:image/png;", "data:image/jpeg;", "data:image/webp;")):
                        if self.allowed and v.lower().startswith(self.allowed):
                            continue      # exactly what the caller allowed: the destination begins with one of the listed prefixes
                        self.bad.append(("script-url", tag, k, v))
        if tag == "script":
            self.bad.append(("element", tag))

    def handle_comment(self, data):
        if "x9" in data:
            self.bad.append(("comment", data))


def payload_docs(r, n):
    P = gen_docs.ALL_PLUGINS
    for _ in range(n):
        k = r.random()
        pay = r.choice(PAY)
        url = r.choice(PAYURL)
        if k < 0.45:
            d = gen_docs.doc(r, plugins=P, directives=True)
            # substitute some words by payloads
            for w in r.sample(gen_docs.WORDS, 4):
                if r.random() < 0.6:
                    d = d.replace(w, r.choice(PAY + PAYURL), r.randint(1, 3))
            yield d
        elif k < 0.75:
            yield r.choice([
                "[t](%s)\n" % url, "[t](<%s>)\n" % url, "![a%s](%s '%s')\n" % (pay, url, pay), "[t][r]\n\n[r]: %s \"%s\"\n" % (url, pay),
                "<%s>\n" % url, "```%s\ncode %s\n```\n" % (pay, pay), "~~~ x%s y\n~~~\n" % pay, "    indented %s\n" % pay, "`%s`\n" % pay,
                "# %s\n" % pay, "%s\n===\n" % pay, "> %s\n" % pay, "- %s\n" % pay, "%s\n" % pay, "<div>\n%s\n</div>\n" % pay,
                "a %s b\n" % pay, "\\%s\n" % pay, "[%s]: /u\n\n[%s]\n" % (pay, pay), "*[%s]: %s\n\n%s\n" % ("AB", pay, "AB"),
                # the key of an abbreviation, a footnote, a definition term is document text as well: keys the inline rules leave alone
                "*[%s]: T %s\n\nsee %s here\n" % (pay, pay, pay), "*[<x9 y9=1 //]: T\n\npress <x9 y9=1 // now %s\n" % pay, "*[a<=b]: T\n\nif a<=b then %s\n" % pay,
                "[^%s]: note\n\nref[^%s]\n" % (pay, pay),
                "[^%s]: note %s\n\nref[^%s]\n" % ("n", pay, "n"), "| %s |\n|---|\n| %s |\n" % (pay, pay), "term %s\n: def %s\n" % (pay, pay),
                "$%s$\n\n$$\n%s\n$$\n" % (pay, pay), "[漢(%s)]\n" % "x9", "[漢字(%s)]\n" % pay, "[k%s(r)]\n" % pay, "[漢(%s)字(%s)][r]\n\n[r]: %s\n" % (pay, "x9", url), "- [ ] %s\n" % pay, ">! %s\n\n>!%s!<\n" % (pay, pay),
                "~~%s~~ ==%s== ^^%s^^ ^%s^ ~%s~\n" % (pay, pay, pay, "x9", "x9"), "https://x9.example/%s\n" % pay,
            ])
        else:
            if r.random() < 0.35:
                # directives of every type with options of every name (also ones the directive does not know) carrying payloads
                yield gen_docs.directive_doc(r, r.choice(["fenced", "rst"]), [pay, "left" + pay, "100" + pay, url, pay + " c1", "tip" + pay, "1" + pay])
                continue
            opt = r.choice(["class", "figclass", "figwidth", "width", "height", "alt", "align", "target", "max-level", "min-level", "encoding", "name", "title", "id", "style", "type",
                            "align", "align", "width", "height", "figwidth"])
            # a value that begins like a valid one (validated options are checked by prefix-anchored patterns): mostly of the kind the option takes
            kind = ["left", "center", "right", "Left", "top", "middle", "bottom", "CENTER"] if opt == "align" else ["100", "50%", "10px", "1", "3", "1.5"] if opt in ("width", "height", "figwidth") else None
            optval = (r.choice(kind) if kind and r.random() < 0.8 else r.choice(["", "", "left", "center", "right", "Left", "100", "50%", "10px", "1", "3", "utf-8"])) + pay
            if r.random() < 0.5:
                yield r.choice([
                    "```{image} %s\n:%s: %s\n```\n" % (r.choice(["a.png", url]), opt, optval),
                    "```{figure} a.png\n:%s: %s\n:align: %s\n\ncaption\n```\n" % (opt, optval, r.choice(["left", "right"]) + pay),
                    "```{image} a.png\n:target: /t\n:align: %s\n:width: %s\n```\n" % (r.choice(["left", "center", "right"]) + pay, optval),
                    ".. image:: a.png\n   :%s: %s\n" % (opt, optval), ".. figure:: a.png\n   :%s: %s\n\n   caption\n" % (opt, optval),
                    "```{toc}\n:%s: %s\n```\n\n# h\n" % (opt, optval), "```{note} T\n:%s: %s\n\nbody\n```\n" % (opt, optval),
                ])
                continue
            yield r.choice([
                "```{note} T %s\n:class: %s\n\nbody %s\n```\n" % (pay, pay, pay),
                "```{%s} T\n```\n" % ("unknown" + r.choice(["", "x"])), "```{unknown} %s\n```\n" % pay,
                "```{image} %s\n:%s: %s\n:alt: %s\n```\n" % (r.choice(["a.png", url]), opt, pay, pay),
                "```{figure} %s\n:%s: %s\n\ncaption %s\n\nlegend %s\n```\n" % (r.choice(["a.png", url]), opt, pay, pay, pay),
                "```{image} a.png\n:target: %s\n:width: 100%s\n:height: 5%s\n```\n" % (url, pay, pay),
                "```{toc} %s\n:%s: %s\n```\n\n# h %s\n" % (pay, opt, pay, pay), "```{include} %s\n```\n" % pay,
                # a table of contents that is really rendered (valid options): the entries show the heading texts once more
                "```{toc}\n```\n\n# h %s\n\n## %s tail\n" % (pay, pay),
                # a heading whose text ENDS in an unterminated tag (what removes tags from the entry text finds none to remove)
                "```{toc}\n```\n\n# h %s <x9 y9=1\n\n## t \\<x9 y9=1 z9\n" % pay, ".. toc::\n\n# a &lt;x9 y9=1\n\nb %s <x9\n===\n" % pay, ".. toc::\n   :max-level: 3\n\n# a %s\n\nb %s\n===\n" % (pay, pay),
                "# first %s\n\n```{toc} Contents\n:min-level: 1\n```\n\n## `%s` and *%s*\n" % (pay, pay, pay), "```{toc}\n```\n\n# [%s](%s)\n" % (pay, url),
                ".. note:: %s\n   :class: %s\n\n   body %s\n" % (pay, pay, pay), ".. image:: %s\n   :alt: %s\n" % (url, pay),
            ])


def converters(m):
    from mistune.directives import Admonition, Figure, FencedDirective, Image, Include, RSTDirective, TableOfContents
    P = gen_docs.ALL_PLUGINS
    return [
        ("html-all+fenced", m.create_markdown(escape=True, plugins=P + [FencedDirective([Admonition(), TableOfContents(), Image(), Figure(), Include()])])),
        ("html-all+rst-hardwrap", m.create_markdown(escape=True, hard_wrap=True, plugins=P + ["speedup", RSTDirective([Admonition(), TableOfContents(), Image(), Figure(), Include()])])),
        ("html-core", m.create_markdown(escape=True)),
        # the shortcut mistune.markdown() with its cache of converters, after calls by a caller who allowed everything
        ("markdown()-after-permissive-calls", _After(m, {})),
        ("markdown(plugins)-after-permissive-calls", _After(m, {"plugins": ["table", "footnotes", "url", "math"]})),
        # the table of contents of the TOC hook, rendered next to the document
        ("html-toc-hook", _WithToc(m)),
        # a caller who allowed some destinations by prefix: nothing else with a harmful scheme may pass
        ("html-allow-prefixes", m.create_markdown(renderer=m.HTMLRenderer(allow_harmful_protocols=list(ALLOW_PREFIXES)), plugins=["url", "table"])),
        ("html-allow-prefixes-tuple+rst", m.create_markdown(renderer=m.HTMLRenderer(allow_harmful_protocols=tuple(ALLOW_PREFIXES)), plugins=[RSTDirective([Image(), Figure()])])),
    ]


class _WithToc:
    """create_markdown() + add_toc_hook: the document followed by render_toc_ul of the collected items"""

    def __init__(self, m):
        from mistune.toc import add_toc_hook
        self.m = m
        self.md = m.create_markdown(plugins=["table", "footnotes"])
        add_toc_hook(self.md, 1, 6)

    def __call__(self, doc):
        from mistune.toc import render_toc_ul
        out, state = self.md.parse(doc)
        return out + render_toc_ul(state.env.get("toc_items") or [])


class _AfterPermissiveRenderer:
    """a default converter used after ANOTHER converter, whose renderer allows every protocol, has rendered the very same
    document: a verdict about a URL remembered across renderer instances must not serve the strict one (seeded change C02_m11)"""

    def __init__(self, m):
        self.perm = m.create_markdown(renderer=m.HTMLRenderer(allow_harmful_protocols=True))
        self.strict = m.create_markdown(escape=True)

    def __call__(self, doc):
        try:
            self.perm(doc)
        except Exception:  # noqa  (C01's business)
            pass
        return self.strict(doc)


class _After:
    """mistune.markdown(doc, **kw) with the defaults (escape on), called after the same shortcut was used with escape=False and
    with a renderer that allows every protocol: the cached converters of those calls must not serve this one"""

    def __init__(self, m, kw):
        self.m, self.kw = m, kw

    def __call__(self, doc):
        from mistune.renderers.html import HTMLRenderer
        self.m.markdown("<b>trusted</b> [a](javascript:ok)", escape=False, **self.kw)
        self.m.markdown("[a](javascript:ok)", renderer=HTMLRenderer(escape=False, allow_harmful_protocols=True), **self.kw)
        return self.m.markdown(doc, **self.kw)


def check_doc(name, md, doc, fails, escape=True, filectx=False):
    try:
        if filectx:
            import worker
            out = worker.convert_file(md, doc)      # Markdown.read of a file next to the include fixtures
        else:
            out = md(doc)
    except Exception:  # C01's business
        return False
    rd = Reader(ALLOW_PREFIXES if "allow-prefixes" in name else ())
    try:
        rd.feed(out)
        rd.close()
    except Exception as e:  # noqa
        rd.bad.append(("parser-error", str(e)))
    bad = rd.bad if escape else [b for b in rd.bad if b[0] == "script-url"]
    if bad:
        fails.append({"input": doc, "config": name, "kind": bad[0][0], "detail": [list(map(str, b)) for b in bad[:3]], "html": out[:1500]})
    return True


def oracle(ctx, extra):
    m = ctx.mistune
    r = ctx.rng("oracle")
    cfgs = converters(m)
    noesc = ("html-noescape", m.create_markdown(escape=False, plugins=gen_docs.ALL_PLUGINS))
    after_perm = ("html-core-after-permissive-renderer", _AfterPermissiveRenderer(m))
    fails = []
    n = 0
    docs = [e for e in extra if isinstance(e, str)] + list(payload_docs(r, ctx.n(2500, 60000)))
    seen = set()
    for d in docs:
        if any(u in d.lower() for u in ("javascript:", "vbscript:", "file:", "data:")):
            # first of all (before any strict converter has seen this document's URLs): a default converter after a permissive
            # renderer rendered the same document
            check_doc(after_perm[0], after_perm[1], d, fails)
        name, md = cfgs[n % len(cfgs)]
        if check_doc(name, md, d, fails):
            n += 1
            seen.add(d)
        if "<" not in d and any(u.split(":")[0].lower() in d.lower() for u in ("javascript:", "vbscript:", "file:", "data:")):
            check_doc(noesc[0], noesc[1], d, fails, escape=False)     # URL clause also with escape off
        if n % 12 == 0:
            # with a file context: include directives whose targets, encodings and options carry payloads; the included
            # files themselves hold payloads (text, Markdown with a script URL, an HTML fragment with an event handler)
            style = r.choice(["fenced", "rst"])
            name2, md2 = cfgs[0] if style == "fenced" else cfgs[1]
            d2 = gen_docs.include_doc(r, style, r.choice(PAY))
            if check_doc(name2 + "+file", md2, d2, fails, filectx=True):
                n += 1
        if len(fails) >= 5:
            break
    return {"evaluations": n, "distinct_nontrivial": len(seen), "failures": fails,
            "rule": "documents carrying marked payloads (<x9 y9=..>, quote breakers, entity-encoded variants, script URLs incl. "
                    "entity/double-entity encoded schemes) in text, code, info strings, titles, destinations, reference and "
                    "footnote definitions, tables, def lists, math, ruby, spoilers, abbreviations, directive titles/options/"
                    "bodies (fenced and RST), 45% generated documents with words replaced by payloads; output read with "
                    "html.parser: no x9 element, no y9/z9/on* attribute, no script element/comment from a payload, no href/src "
                    "with a harmful scheme (the latter also with escape=False on documents without raw HTML); every document contains a payload; converters: all plugins + fenced directives, all plugins + speedup + RST directives + hard_wrap, core, and the shortcut mistune.markdown() called after permissive calls of the same shortcut (escape=False, allow_harmful_protocols); documents with a script URL also by a default converter after a second converter whose renderer allows every protocol rendered the same document; every 12th document is a set of include directives converted with a file context (payloads in targets, encodings, options and in the included files)",
            "samples": [json.dumps(docs[0])[:300]]}


def replay(ctx, case):
    c = case.get("case", case)
    m = ctx.mistune
    fails = []
    for name, md in converters(m) + [("html-noescape", m.create_markdown(escape=False, plugins=gen_docs.ALL_PLUGINS))]:
        if name == c.get("config"):
            check_doc(name, md, c["input"], fails, escape=(name != "html-noescape"))
    return fails[0] if fails else None


def correspondence(ctx):
    import corr_html
    a = _template_correspondence(ctx)
    b = corr_html.run(ctx, ctx.n(1500, 30000))
    return {"evaluations": a["evaluations"] + b["evaluations"], "disagreements": (a["disagreements"] + b["disagreements"])[:20],
            "parts": {"render functions": a["evaluations"], "whole core conversion to HTML": b["evaluations"]}, "samples": a.get("samples", [])}
