"""C16 — line-ending style does not matter."""
import json

import gen_docs
from common import run_model

ID = "C16"
LEVEL = "proof"
GEN = ["RxGen", "UnicodeGen", "InlineGen", "BlockGen", "UtilGen", "NormalizeGen", "TmplGen"]
COQ = ["Props/C16.vo"]
EXPLANATION = ("Theorems in coq/Props/C16.v: for every document given as lines with arbitrary mixed LF/CRLF/CR endings "
               "(side condition: no CR-terminated line directly followed by an empty LF-terminated line, which is a CRLF), "
               "the text handed to the block parser equals that of the LF form; a missing final newline is supplied; "
               "None behaves as the empty string. Conversion is G∘norm with G an arbitrary function (section variable), so "
               "the result of any configuration is invariant; instantiated with the executable model of the whole core conversion (coq/Model/Doc.v, tied by the AST correspondence run): its AST is ending-invariant (C16_core_ast_ending_invariant), and so are the HTML output of the document model (C16_html_output_ending_invariant) and the output of the Markdown renderer model (C16_markdown_output_ending_invariant). The normalisation op list is regenerated from "
               "Markdown.parse/__call__ by the translator and tied by reflexivity (C16_tie_ops, C16_tie_none).")
ASSUMPTIONS = ["everything downstream of Markdown.parse's prefix sees the text only through state.src (checked by the "
               "translator: the text variable is not used after state.process)",
               "Markdown.read and the CLI go through Markdown.parse (covered by C17's check)"]
TRUSTED = ["model of str.replace / str.endswith (PyStr.v), validated against CPython in this check's correspondence"]


def _configs(m):
    from mistune.renderers.markdown import MarkdownRenderer
    from mistune.renderers.rst import RSTRenderer
    return [
        ("html-default", m.create_markdown()),
        ("html-noescape-hardwrap-plugins", m.create_markdown(escape=False, hard_wrap=True, plugins=gen_docs.ALL_PLUGINS)),
        ("ast-plugins", m.create_markdown(renderer=None, plugins=["table", "footnotes", "def_list", "task_lists"])),
        ("mistune.html", m.html),
        ("rst", m.create_markdown(renderer=RSTRenderer())),
        ("markdown", m.create_markdown(renderer=MarkdownRenderer())),
        ("html-default|parse", m.create_markdown()),
        ("html-default|read", m.create_markdown()),
        ("ast-plugins|parse", m.create_markdown(renderer=None, plugins=["table", "footnotes", "def_list", "task_lists"])),
        ("rst|read", m.create_markdown(renderer=RSTRenderer())),
        # the module-level shortcut with its cache of converters
        ("markdown()-html", _Shortcut(m, {})),
        ("markdown()-noescape-plugins", _Shortcut(m, {"escape": False, "plugins": ["table", "footnotes"]})),
        ("markdown()-ast", _Shortcut(m, {"renderer": "ast"})),
        ("markdown()-rst", _Shortcut(m, {"renderer": RSTRenderer()})),
        ("markdown()-markdown", _Shortcut(m, {"renderer": MarkdownRenderer()})),
    ]


class _Shortcut:
    """mistune.markdown(text, **kw) as a converter object"""

    def __init__(self, m, kw):
        self.m, self.kw = m, kw

    def __call__(self, t):
        return self.m.markdown(t, **self.kw)


# documents that are empty or white space only (of the narrow and of the wide kind): the final-newline clause on them
BLANK_DOCS = ["", " ", "\t", "  \n \n", "\n\n", "\u00a0", "\u3000\n\u3000", "\x0c", "\u2028", "\x0b\n", " \u2003 ", "\x1c", "\ufeff", "\u200b"]


def _endings_stream(r, n):
    """strings dense in \\r and \\n, including the ambiguous CR LF adjacency"""
    alpha = ["\r", "\n", "\r\n", "a", "b", " ", "\r\r", "\n\n", "\n\r", "x\r", "#", "- ", "> "]
    for _ in range(n):
        yield "".join(r.choice(alpha) for _ in range(r.randint(0, 12)))


def correspondence(ctx):
    import corr_doc
    a = _norm_correspondence(ctx)
    b = corr_doc.run(ctx, ctx.n(800, 15000))
    return {"evaluations": a["evaluations"] + b["evaluations"], "disagreements": (a["disagreements"] + b["disagreements"])[:20],
            "parts": {"normalisation": a["evaluations"], "whole-document model (AST)": b["evaluations"]}, "samples": a.get("samples", [])}


def _norm_correspondence(ctx):
    m = ctx.mistune
    md = m.create_markdown()
    r = ctx.rng("corr")
    n = ctx.n(3000, 60000)
    inputs = [""] + list(_endings_stream(r, n))
    docs = list(gen_docs.mixed_stream(r, ctx.n(200, 2000)))
    for d in docs:
        inputs.append(_vary(r, d, r.choice(["crlf", "cr", "mixed"])))
    inputs = list(dict.fromkeys(inputs))
    model = run_model([("norm", s) for s in inputs] + [("call_none", None)])
    dis = []
    for s, ms in zip(inputs, model):
        try:
            impl = md.parse(s)[1].src
        except Exception as e:  # noqa
            impl = "EXC:" + type(e).__name__
        if impl != ms:
            dis.append({"input": s, "model": ms, "impl": impl})
    # None path: what reaches the parser for md(None)
    seen = {}
    st = md.block.state_cls()
    orig = md.parse

    def spy(s, state=None):
        seen["s"] = s
        return orig(s, state)
    md.parse = spy
    try:
        md(None)
        none_src = md.block.state_cls and seen.get("s")
        none_norm = orig(none_src)[1].src if none_src is not None else None
    except Exception as e:  # noqa
        none_norm = "EXC:" + type(e).__name__
    finally:
        del md.parse
    if none_norm != model[-1]:
        dis.append({"input": None, "model": model[-1], "impl": none_norm})
    nontriv = sum(1 for s in inputs if "\r" in s)
    return {"evaluations": len(inputs) + 1, "disagreements": dis, "distinct_with_CR": nontriv,
            "samples": [json.dumps(x) for x in inputs[1:6]]}


def _vary(r, t, how):
    lines = t.split("\n")
    if how == "crlf":
        return "\r\n".join(lines)
    if how == "cr":
        return "\r".join(lines)
    # mixed, unambiguous: never CR directly before an empty line's LF
    out = []
    for i, l in enumerate(lines[:-1]):
        nxt_empty = (i + 1 < len(lines) - 1 and lines[i + 1] == "") or (i + 1 == len(lines) - 1 and lines[i + 1] == "" and False)
        e = r.choice(["\n", "\r\n", "\r"])
        if e == "\r" and i + 1 < len(lines) and lines[i + 1] == "" and i + 1 < len(lines) - 1:
            e = "\r\n"
        out.append(l + e)
    out.append(lines[-1])
    return "".join(out)


import os
import tempfile

_TMP = None


def _via(md, how, t):
    """the three public entry points: md(text), md.parse(text)[0], md.read(path)[0]"""
    global _TMP
    if how == "call":
        return md(t)
    if how == "parse":
        return md.parse(t)[0]
    if _TMP is None:
        _TMP = tempfile.mkdtemp(prefix="c16_")
        import atexit
        import shutil
        atexit.register(shutil.rmtree, _TMP, True)
    path = os.path.join(_TMP, "doc.md")
    with open(path, "wb") as f:
        f.write(t.encode("utf-8", "surrogatepass"))
    return md.read(path)[0]


def _check_one(cfgs, t, r, fails, name_filter=None):
    for name, md in cfgs:
        entry = "call"
        if "|" in name:
            name0, entry = name.split("|")
        try:
            base = _via(md, "call", t + ("" if t.endswith("\n") else "\n"))
        except Exception as e:  # C01's business; skip inputs that crash
            continue
        for how in ("crlf", "cr", "mixed", "final"):
            if how == "final":
                if t.endswith("\n"):
                    continue
                v = t
            else:
                v = _vary(r, t, how)
            try:
                got = _via(md, entry, v)
            except Exception as e:  # noqa
                got = "EXC:%s:%s" % (type(e).__name__, e)
            if got != base:
                fails.append({"input": t, "variant": v, "how": how, "config": name,
                              "expected": base if isinstance(base, str) else json.dumps(base)[:500],
                              "got": got if isinstance(got, str) else json.dumps(got)[:500]})
                return


CLI_DOCS = ["    Title\n    =====\n\n    Some *text*.\n", "  - a\n  - b\n\n    c\n", "   # h\n\n   para\n   more\n", "\tcode\n\n\tmore\n", " a  \n b\n",
            "> q\n> r\n\n```\nc\n```\n", "a\n\nb\n"]


def _cli_stdin(ctx, r, fails):
    import subprocess
    from common import PY, impl_env

    def run(data):
        try:
            p = subprocess.run([PY, "-m", "mistune"], input=data, stdout=subprocess.PIPE, stderr=subprocess.PIPE, timeout=60,
                               env=impl_env({"PYTHONIOENCODING": "utf-8"}))
            return p.stdout.decode("utf-8", "replace") if p.returncode == 0 else "EXIT:%d:%s" % (p.returncode, p.stderr.decode("utf-8", "replace")[-200:])
        except subprocess.TimeoutExpired:
            return "TIMEOUT"
    docs = CLI_DOCS + [d for d in gen_docs.mixed_stream(r, ctx.n(12, 150), plugins=["table", "footnotes"]) if "\r" not in d and d.strip()]
    n = 0
    for t in docs:
        base = run((t + ("" if t.endswith("\n") else "\n")).encode("utf-8", "replace"))
        for how in ("crlf", "cr", "mixed") + (() if t.endswith("\n") else ("final",)):
            v = t if how == "final" else _vary(r, t, how)
            got = run(v.encode("utf-8", "replace"))
            n += 1
            if got != base:
                fails.append({"input": t, "variant": v, "how": how, "config": "cli|stdin", "expected": base[:500], "got": got[:500]})
                return n
    return n


def oracle(ctx, extra):
    m = ctx.mistune
    cfgs = _configs(m)
    r = ctx.rng("oracle")
    n = ctx.n(1500, 30000)
    fails = []
    docs = [e for e in extra if isinstance(e, str)]
    docs += [d.replace("\r\n", "\n").replace("\r", "\n") for d in docs]
    docs += BLANK_DOCS
    # documents shaped like files: what tools put on the first lines (front matter, title blocks, comments, a byte-order mark)
    heads = ["---\ntitle: T\ntags: [a, b]\n---\n", "---\nkey: v\n...\n", "+++\nt = 1\n+++\n", "% Title\n% Author\n", "<!-- generated -->\n", "\ufeff# Title\n",
             "#!/usr/bin/env x\n", "Title\n=====\n", "---\n---\n", "---\n\n---\n", "***\nmeta\n***\n", "[//]: # (c)\n", "{% raw %}\n"]
    docs += [h + b for h in heads for b in ("", "\n# Body\n\ntext *x*\n", "para\nmore\n")]
    docs += list(gen_docs.mixed_stream(r, n, plugins=gen_docs.ALL_PLUGINS))
    docs += [gen_docs.edge_doc(r) for _ in range(n // 10)]
    docs += [d.rstrip("\n") for d in docs[: n // 3]]
    docs = [d for d in dict.fromkeys(docs) if "\r" not in d]
    nontriv = 0
    for t in docs:
        if "\n" in t or not t.endswith("\n"):
            nontriv += 1
        _check_one(cfgs, t, r, fails)
        if len(fails) >= 5:
            break
    ev = len(docs)
    # the command-line tool reading the document from a pipe is a conversion entry point as well
    if len(fails) < 5:
        ev += _cli_stdin(ctx, r, fails)
    if len(fails) < 5:
        ev += _cli_files(ctx, r, fails)
    # None == "" and empty HTML
    for name, md in cfgs:
        if "|" in name:
            continue
        try:
            a, b = md(None), md("")
        except Exception as e:  # noqa
            fails.append({"input": None, "config": name, "got": "EXC:%s" % type(e).__name__, "how": "none"})
            continue
        ev += 1
        if a != b or (name.startswith("html") and a != ""):
            fails.append({"input": None, "config": name, "expected": b, "got": a, "how": "none"})
    return {"evaluations": ev * 4, "distinct_nontrivial": nontriv, "failures": fails,
            "rule": "LF documents (70% structured markdown incl. all plugins, 15% mutated, 15% noise; a third without final "
                    "newline; 14 empty or white-space-only documents; 39 documents that begin like files do (front matter, title blocks, comments, a byte-order mark); 10% documents with wide white space at the borders of block text) x {CRLF, CR, unambiguous mixed, +final newline} x 6 converters (+ the parse() and read() entry points, + the shortcut mistune.markdown() with the html, ast, rst and markdown renderers; + python -m mistune reading documents, among them ones with a common left margin, from a pipe as bytes, and reading one to three files given with -f); non-trivial = has a line "
                    "ending to vary or lacks the final newline; distinct by text",
            "samples": [json.dumps(d) for d in docs[:4]]}


def _run_files(datas, twice_flag):
    """python -m mistune -f <file> [-f <file> | <file>] on files holding exactly the given bytes"""
    import shutil
    import subprocess
    import tempfile
    from common import PY, impl_env
    d = tempfile.mkdtemp(prefix="c16_")
    try:
        names = []
        for i, data in enumerate(datas):
            names.append(os.path.join(d, "f%d.md" % i))
            with open(names[-1], "wb") as f:
                f.write(data)
        argv = ["-f", names[0]] + sum(([x] if not twice_flag else ["-f", x] for x in names[1:]), [])
        p = subprocess.run([PY, "-m", "mistune"] + argv, stdin=subprocess.DEVNULL, stdout=subprocess.PIPE, stderr=subprocess.PIPE, timeout=60,
                           env=impl_env({"PYTHONIOENCODING": "utf-8"}))
        return p.stdout.decode("utf-8", "replace") if p.returncode == 0 else "EXIT:%d" % p.returncode
    except subprocess.TimeoutExpired:
        return "TIMEOUT"
    finally:
        shutil.rmtree(d, ignore_errors=True)


FILE_PARTS = ["para one\nmore", "Title", "=====\ntext", "- a\n- b", "- c", "[ref]: /u\n\nuse [ref]", "see [ref]", "> q", "```\ncode\n```", "# h"]


def _cli_files(ctx, r, fails):
    """the command-line tool reading one or two files (-f a.md -f b.md, -f a.md b.md): every spelling of the line endings of the
    files, and a final newline or none, gives the same output (whatever the tool does with a second file)"""
    n = 0
    for k in range(ctx.n(10, 80)):
        parts = [r.choice(FILE_PARTS) for _ in range(r.choice([1, 2, 2, 3]))]
        twice = r.random() < 0.5
        base = _run_files([(t + "\n").encode() for t in parts], twice)
        for how in ("crlf", "cr", "final"):
            vs = [(t if how == "final" else (t + "\n").replace("\n", "\r\n" if how == "crlf" else "\r")).encode() for t in parts]
            got = _run_files(vs, twice)
            n += 1
            if got != base:
                fails.append({"input": parts, "variant": [v.decode() for v in vs], "how": how, "config": "cli|files", "twice": twice, "expected": base[:500], "got": got[:500]})
                return n
    return n


def replay(ctx, case):
    c = case.get("case", case)
    m = ctx.mistune
    if c.get("config") == "cli|files":
        a = _run_files([(t + "\n").encode() for t in c["input"]], c.get("twice"))
        b = _run_files([v.encode() for v in c["variant"]], c.get("twice"))
        return None if a == b else {"expected": a, "got": b}
    if c.get("config") == "cli|stdin":
        import subprocess
        from common import PY, impl_env
        run = lambda data: subprocess.run([PY, "-m", "mistune"], input=data.encode("utf-8", "replace"), stdout=subprocess.PIPE, stderr=subprocess.PIPE,  # noqa: E731
                                          timeout=60, env=impl_env({"PYTHONIOENCODING": "utf-8"})).stdout.decode("utf-8", "replace")
        t = c["input"]
        a, b = run(t + ("" if t.endswith("\n") else "\n")), run(c["variant"])
        return None if a == b else {"expected": a, "got": b}
    for name, md in _configs(m):
        if name != c.get("config"):
            continue
        if c.get("how") == "none":
            a, b = md(None), md("")
            return None if (a == b and (not name.startswith("html") or a == "")) else {"got": a, "expected": b}
        entry = name.split("|")[1] if "|" in name else "call"
        t = c["input"]
        a, b = _via(md, "call", t + ("" if t.endswith("\n") else "\n")), _via(md, entry, c["variant"])
        return None if a == b else {"expected": a, "got": b}
    return {"error": "unknown config"}
