"""C06 — renderers produce a faithful, well-formed image of the token tree."""
import json
from html.parser import HTMLParser

import gen_docs
from common import run_model  # noqa: F401

ID = "C06"
LEVEL = "other"
GEN = ["TmplGen", "UtilGen", "RxGen", "UnicodeGen", "InlineGen", "BlockGen", "NormalizeGen", "MdRenderGen"]
COQ = ["Props/C06.vo"]
EXPLANATION = (
    "PARTIAL proof + oracle. Proved (coq/Props/C06.v) for every HTML render template regenerated from the source, every "
    "feasible shape, escape on: the literal tags are balanced around the holes of the rendered children; every rendered "
    "child is inserted at most once and is dropped only where the template tests it for emptiness; templates of inline "
    "tokens spell phrasing elements only (so no block element can be emitted inside <p>, <hN>, <td>); the five leaf "
    "templates insert their text exactly once through escape only; an inserted piece is an infix of the output and pieces "
    "keep their order. WHOLE DOCUMENTS: on the executable model of the complete core conversion (coq/Model/Doc.v + HtmlDoc.v, tied by "
    "skeletons, regenerated data and the HTML correspondence run of this check) the induction over the token tree is carried "
    "out: for every document the output is a string of a balanced-tag grammar - text without < > and double-quote, elements "
    "<name attrs>body</name> with body in the grammar, void elements, attribute values free of the three characters - in "
    "which p, h1-h6, pre, a, em, strong, code - and del, mark, ins, sup, sub of the modelled inline plugins - contain phrasing "
    "elements only (C06_whole_document_is_well_nested; core, and core plus strikethrough, mark, insert, superscript, subscript, "
    "url), and every string of that grammar returns the context reader to character data; and the output contains the image of every text, code-span, inline-HTML, code-block and HTML-block leaf of the AST - escape(raw), for HTML blocks escape(raw.strip()) - one after the other in document order (C06_whole_document_shows_every_leaf_in_order, from a reflective analysis of the regenerated templates that is sound for every shape with escape on; text under an image goes into the alt attribute and is the oracle's). MARKDOWN RENDERER: on the model of MarkdownRenderer and the shared list renderer over the core AST (coq/Model/MdDoc.v; skeletons with constants, regenerated patterns, correspondence run) the letters and digits of every text, code and HTML leaf, in document order, are a subsequence of those of the output, for every document (C06_markdown_output_keeps_every_leaf). NOT proved: the other plugin and "
    "directive tokens at tree level, contiguity of the leaves in the Markdown output, the RST renderer, and two-step = one-step; these clauses are decided by the oracle: strict HTML "
    "nesting check, ordered search of every escaped leaf, per-line search of leaves in Markdown/RST output, and comparison "
    "of rendering a renderer-less token list with direct conversion.")
ASSUMPTIONS = ["the leaf/inline classification of token types is part of the statement (this file and coq/Props/C06.v)"]
TRUSTED = ["tools/tmplgen.py"]
TECHNIQUE = "Coq reflective structural checks on regenerated templates; tree-level clauses by an independent HTML reader on generated documents"

VOID = {"hr", "br", "img", "input"}
BLOCKISH = {"p", "h1", "h2", "h3", "h4", "h5", "h6", "ul", "ol", "li", "blockquote", "pre", "hr", "table", "thead", "tbody", "tr", "td", "th",
            "div", "section", "dl", "dt", "dd", "figure", "figcaption", "details", "summary"}
NO_BLOCK_INSIDE = {"p", "h1", "h2", "h3", "h4", "h5", "h6", "dt", "figcaption", "summary"}


class Strict(HTMLParser):
    def __init__(self):
        super().__init__(convert_charrefs=False)
        self.stack = []
        self.err = None

    def fail(self, msg):
        if self.err is None:
            self.err = msg

    def handle_starttag(self, tag, attrs):
        if tag in BLOCKISH:
            for t in self.stack:
                if t in NO_BLOCK_INSIDE:
                    self.fail("block element <%s> inside <%s>" % (tag, t))
        if tag == "li" and (not self.stack or self.stack[-1] not in ("ul", "ol")):
            self.fail("<li> outside a list")
        if tag in ("ul", "ol") and self.stack and self.stack[-1] in ("ul", "ol"):
            self.fail("list directly inside a list")
        if tag not in VOID:
            self.stack.append(tag)

    def handle_startendtag(self, tag, attrs):
        if tag not in VOID:
            self.fail("self-closing non-void <%s/>" % tag)

    def handle_endtag(self, tag):
        if tag in VOID:
            return self.fail("end tag for void element %s" % tag)
        if not self.stack or self.stack[-1] != tag:
            return self.fail("</%s> closes %r" % (tag, self.stack[-1:] or None))
        self.stack.pop()


def well_formed(out):
    p = Strict()
    try:
        p.feed(out)
        p.close()
    except Exception as e:  # noqa
        return "parser error %s" % e
    if p.err:
        return p.err
    if p.stack:
        return "unclosed %r" % p.stack
    return None


def leaves(tokens, mode):
    """(kind, text) leaves in document order; mode: 'html' | 'md' | 'rst'"""
    out = []

    def walk(ts, in_image):
        for t in ts:
            ty = t["type"]
            if ty in ("text", "codespan", "inline_html", "block_code", "block_html", "inline_math", "block_math", "block_error"):
                if not in_image:
                    out.append((ty, t.get("raw", "")))
            if "children" in t:
                walk(t["children"], in_image or ty == "image")
    walk(tokens, False)
    return out


def find_in_order(hay, needles):
    pos = 0
    for kind, n in needles:
        i = hay.find(n, pos)
        if i < 0:
            return kind, n
        pos = i + len(n)
    return None


def configs(m):
    from mistune.directives import Admonition, FencedDirective, Figure, Image
    P = [p for p in gen_docs.ALL_PLUGINS]
    return [("core", [], False), ("all", P, False), ("all-speedup", P + ["speedup"], False),
            # (the toc directive is documented to work with the HTML renderer only, so it is not part of two-step = one-step)
            ("fenced", ["footnotes", "table", "task_lists", FencedDirective([Admonition(), Image(), Figure()])], True)]


_toc_md = {}


def check_toc(m, style, doc, fails):
    """well-formedness only (the toc directive is HTML-only, so two-step rendering is not compared)"""
    if style not in _toc_md:
        from mistune.directives import FencedDirective, RSTDirective, TableOfContents
        _toc_md[style] = m.create_markdown(escape=True, plugins=["footnotes", (FencedDirective if style == "fenced" else RSTDirective)([TableOfContents()])])
    try:
        out = _toc_md[style](doc)
    except Exception:  # C01's business
        return False
    e = well_formed(out)
    if e:
        fails.append({"input": doc, "config": "toc-" + style, "escape": True, "hard_wrap": False, "kind": "not-well-formed", "detail": e, "html": out[:1500]})
    return True


def check_html(m, name, plugins, doc, escape, hard_wrap, fails):
    md = m.create_markdown(escape=escape, hard_wrap=hard_wrap, plugins=plugins)
    ast_md = m.create_markdown(renderer=None, hard_wrap=hard_wrap, plugins=plugins)
    try:
        out = md(doc)
        toks, state = ast_md.parse(doc)
    except Exception:  # C01's business
        return False

    def bad(kind, **kw):
        f = {"input": doc, "config": name, "escape": escape, "hard_wrap": hard_wrap, "kind": kind, "html": out[:1500]}
        f.update(kw)
        fails.append(f)
        return True
    if escape:
        e = well_formed(out)
        if e:
            return bad("not-well-formed", detail=e)
        esc = m.escape
        need = []
        for kind, raw in leaves(toks, "html"):
            if kind == "block_html":
                need.append((kind, esc(raw.strip())))
            elif kind in ("block_error",):
                need.append((kind, raw))
            else:
                need.append((kind, esc(raw)))
        miss = find_in_order(out, need)
        if miss:
            return bad("leaf-missing-or-out-of-order", detail=list(miss))
    else:
        need = []
        for kind, raw in leaves(toks, "html"):
            if kind in ("inline_html", "block_html", "block_error"):
                need.append((kind, raw))
            elif kind == "text":
                need.append((kind, m.safe_entity(raw)))
            else:
                need.append((kind, m.escape(raw)))
        miss = find_in_order(out, need)
        if miss:
            return bad("leaf-missing-or-out-of-order", detail=list(miss))
    # two-step == one-step
    try:
        two = md.renderer(toks, state)
    except Exception as e:  # noqa
        two = "EXC:%s:%s" % (type(e).__name__, e)
    if two != out:
        return bad("two-step-differs", expected=out[:800], got=str(two)[:800])
    return True


def check_text_renderer(m, which, doc, fails):
    from mistune.renderers.markdown import MarkdownRenderer
    from mistune.renderers.rst import RSTRenderer
    r = MarkdownRenderer() if which == "markdown" else RSTRenderer()
    md = m.create_markdown(renderer=r)
    ast_md = m.create_markdown(renderer=None)
    try:
        out = md(doc)
        toks = ast_md(doc)
    except Exception:
        return False
    need = []
    import re
    # the renderers re-indent the lines of a leaf (a line ends at a line feed and nowhere else): search line by line
    seps = re.compile("\n")
    for kind, raw in leaves(toks, which):
        if kind in ("text",):
            t = raw.replace("|", "\\|") if which == "rst" else raw
            for piece in seps.split(t):
                if piece.strip():
                    need.append((kind, piece.strip()))
        elif kind in ("codespan", "block_code"):
            for line in seps.split(raw):
                if line.strip():
                    need.append((kind, line.strip()))
    miss = find_in_order(out, need)
    if not miss:
        # the text leaves of an image (its alternative text) are written somewhere as well - in place by the Markdown renderer, in
        # the substitution definitions at the end by the RST renderer: plain-word alternative texts must occur in the output
        def alts(ts):
            for t in ts:
                if t["type"] == "image":
                    ch = t.get("children") or []
                    if ch and all(c["type"] == "text" for c in ch):
                        yield "".join(c.get("raw", "") for c in ch)
                elif "children" in t:
                    yield from alts(t["children"])
        for alt in alts(toks):
            if re.fullmatch(r"[A-Za-z0-9 ]+", alt) and alt.strip() and alt.strip() not in out:
                miss = ("image-alt", alt.strip())
                break
    if miss:
        f = {"input": doc, "config": which, "kind": "text-renderer-leaf-missing", "detail": list(miss), "html": out[:1500]}
        if which == "rst" and "<linebreak>" in "".join(raw for _k, raw in leaves(toks, which)) \
                and not _missing_without_marker(md, ast_md, doc, which):
            f["class"] = "rst-linebreak-marker-in-band"
        fails.append(f)
    else:
        # the output is an image of the token tree: the token list of the renderer-less converter, handed to a renderer of the same
        # kind together with its state - and handed to it a second time -, gives the string of the one-step conversion
        # (seeded change C06_m12: a renderer that keeps what an earlier rendering of the same state collected)
        import copy
        try:
            toks2, state2 = ast_md.parse(doc)
            r2 = type(r)()
            for attempt in (1, 2):
                got = r2(copy.deepcopy(toks2), state2)
                if got != out:
                    fails.append({"input": doc, "config": which, "kind": "token-list-rendered-again-differs",
                                  "detail": ["rendering #%d of the token list" % attempt, got[:600]], "html": out[:1500]})
                    break
        except Exception:  # noqa  (C01's business)
            pass
    return True


def _missing_without_marker(md, ast_md, doc, which):
    """the same document with the renderer's in-band marker word spelt differently: does a leaf still go missing?"""
    doc2 = doc.replace("linebreak>", "lineBreak>")
    fails = []
    try:
        out, toks = md(doc2), ast_md(doc2)
    except Exception:
        return True
    need = []
    for kind, raw in leaves(toks, which):
        if kind == "text":
            need += [(kind, p.strip()) for p in raw.replace("|", "\\|").split("\n") if p.strip()]
        elif kind in ("codespan", "block_code"):
            need += [(kind, p.strip()) for p in raw.split("\n") if p.strip()]
    return find_in_order(out, need) is not None


def correspondence(ctx):
    import corr_html
    import corr_md
    a = corr_html.run(ctx, ctx.n(1500, 30000))
    b = corr_md.run(ctx, ctx.n(1200, 25000))
    import corr_rst
    c = corr_rst.run(ctx, ctx.n(1200, 25000))
    return {"evaluations": a["evaluations"] + b["evaluations"] + c["evaluations"],
            "disagreements": (a["disagreements"] + b["disagreements"] + c["disagreements"])[:20],
            "parts": {"HTML renderer model": a["evaluations"], "Markdown renderer model": b["evaluations"], "RST renderer model": c["evaluations"]},
            "samples": a.get("samples", []) + b.get("samples", []) + c.get("samples", [])}


def oracle(ctx, extra):
    m = ctx.mistune
    r = ctx.rng("oracle")
    cfgs = configs(m)
    fails = []
    n = 0
    seen = set()
    # corner documents converted on every run (the sampled ones meet them only now and then): directive options whose value begins
    # like a valid one and goes on with markup, in both escape modes
    for name, plugins, directives in cfgs:
        if not directives:
            continue
        for ty in ("image", "figure"):
            for opt in ("width", "height", "align", "alt", "target", "figwidth", "figclass"):
                for val in ('1"><b>', '100px"><li>x', 'left"><b>', 'c1"><i>', "/t\"><b>"):
                    doc = "```{%s} a.png\n:%s: %s\n```\n" % (ty, opt, val)
                    if check_html(m, name, plugins, doc, True, False, fails):
                        n += 1
    # ... and documents for the text renderers: images that share a destination, or a title, or everything but the alt text, inline
    # and alone in a paragraph; leaves with Unicode line boundaries
    for d2 in ["Click ![save icon](/i/disk.png) to save, or ![export as a file](/i/disk.png) to export.\n",
               "a ![one](/i.png 't') b ![two](/i.png 't') c ![one](/j.png 't') d ![one](/i.png 'u')\n\n![alone](/i.png 't')\n\n![alone too](/i.png 't')\n",
               "- x ![p](/q.png) y ![r](/q.png)\n\n> ![s](/q.png) z ![s](/q.png)\n",
               "> a\u2028b c\x0cd\n\n    co\x0cde\u2028x\n\n- i\x85j\n  k\x1cl\n"]:
        for which in ("markdown", "rst"):
            check_text_renderer(m, which, d2, fails)
            n += 1
    for i in range(ctx.n(2500, 50000)):
        name, plugins, directives = cfgs[i % len(cfgs)]
        names = [p for p in plugins if isinstance(p, str)]
        k = r.random()
        if extra and i < len(extra) and isinstance(extra[i], str):
            doc = extra[i]
        elif k < 0.2:
            doc = gen_docs.showcase(r) if r.random() < 0.6 else gen_docs.special_slots(r)
            if directives and r.random() < 0.3:
                doc = gen_docs.directive_doc(r, "fenced" if r.random() < 0.5 else "rst")
        elif k < 0.4 and directives:
            # directives of every type with options of every name and value (numbers followed by markup among them)
            doc = gen_docs.directive_doc(r, "fenced", gen_docs.MARKUP_NUMBERS if r.random() < 0.5 else None)   # (the one configuration with directives is the fenced one)
        elif k < 0.6:
            doc = gen_docs.doc(r, plugins=names, directives=directives)
        elif k < 0.75:
            doc = gen_docs.interaction_doc(r)
        elif k < 0.88:
            doc = gen_docs.mutate(r, gen_docs.doc(r, plugins=names, directives=directives))
        else:
            doc = gen_docs.noise(r)
        if check_html(m, name, plugins, doc, r.random() < 0.75, r.random() < 0.25, fails):
            n += 1
            seen.add(doc)
        if i % 4 == 1:
            # tables of contents (directive, either style) for any sequence of heading levels: the nesting of the generated list
            style = r.choice(["fenced", "rst"])
            d3 = gen_docs.toc_doc(r, style)
            if check_toc(m, style, d3, fails):
                n += 1
        if i % 4 == 0:
            d2 = gen_docs.doc(r, plugins=(), directives=False)
            if r.random() < 0.1:
                # words that collide with what the text renderers write themselves
                w = r.choice(["\\<linebreak>", "\\|", "``", "\\*x\\*", "..", "::", "|img-0|", "> q", "\\> q"])
                d2 = d2.replace(" ", " " + w + " ", 1)
            check_text_renderer(m, r.choice(["markdown", "rst"]), d2, fails)
            n += 1
        if len([f for f in fails if not f.get("class")]) >= 5:
            break
    known = [f for f in fails if f.get("class")]
    fails = [f for f in fails if not f.get("class")] + known[:3]
    return {"evaluations": n, "distinct_nontrivial": len(seen), "failures": fails, "known_finding_instances": len(known),
            "rule": "12% plugin showcases (definition + use), 8% documents with HTML-special characters in every slot of every plugin and core inline syntax (and near misses of each syntax), 40% generated documents, 15% interrupt/lazy fragments, 13% mutated, 12% noise; configurations core / all "
                    "plugins / all+speedup / footnotes+table+task_lists+fenced directives, escape on 75%, hard_wrap 25%; HTML "
                    "checked for strict nesting (escape on), every leaf of the renderer-less token list searched escaped and in "
                    "order, rendering that token list compared with direct conversion; every 4th iteration a core document "
                    "through the Markdown or RST renderer with per-line leaf search, and the renderer-less token list rendered twice with its state compared with that output; every 9th a table-of-contents directive (fenced or RST style) over a random sequence of 1-7 heading levels, strict nesting only; distinct by text",
            "samples": [json.dumps(gen_docs.doc(ctx.rng('s'), plugins=gen_docs.ALL_PLUGINS))[:300]]}


def check_known(ctx, k):
    fails = []
    check_text_renderer(ctx.mistune, "rst", k["input"], fails)
    return bool(fails)


def classify(f, known):
    for k in known:
        if k["id"] == f.get("class"):
            return k["id"]
    return None


def replay(ctx, case):
    c = case.get("case", case)
    m = ctx.mistune
    fails = []
    if c.get("config") in ("markdown", "rst"):
        check_text_renderer(m, c["config"], c["input"], fails)
    elif (c.get("config") or "").startswith("toc-"):
        check_toc(m, c["config"][4:], c["input"], fails)
    else:
        for name, plugins, _d in configs(m):
            if name == c.get("config"):
                check_html(m, name, plugins, c["input"], c.get("escape", True), c.get("hard_wrap", False), fails)
    return fails[0] if fails else None
