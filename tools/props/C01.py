"""C01 — conversion is total and terminating for every input and configuration."""
import json

import gen_docs
from workers import Worker

ID = "C01"
LEVEL = "other"
GEN = ["RxGen", "UnicodeGen", "InlineGen", "BlockGen", "UtilGen", "NormalizeGen", "MdRenderGen"]
COQ = ["Props/C01.vo", "Props/C01_rst.vo"]
EXPLANATION = (
    "PARTIAL proof + isolated-worker oracle. Proved (coq/Props/C01.v): (1) every regular-expression operation of the model "
    "terminates (the engine is a structurally recursive total function; RxSpec.m_spec); (2) for the generic scanner loop "
    "shared by the block and the inline parser: if every handler either declines or returns a position beyond the cursor, "
    "the loop terminates within (length - cursor) iterations and the cursor is strictly monotone; (3) every regenerated "
    "rule pattern is well-formed and non-nullable; (4) INLINE PARSER: for the executable model of InlineParser (scanner "
    "loop, the nine handlers, precedence_scan, the link helpers, recursive rendering of emphasis and link text; "
    "coq/Model/Inline.v) instantiated with the regenerated patterns and rule order: every position a handler returns is at or "
    "beyond the end of its match (C01_inline_cursor_advances) and the parse never runs out of fuel - it terminates for "
    "every text, both hard_wrap settings and every reference table (C01_inline_parser_terminates, by induction on the text "
    "length with nesting fuel 2n+3); (5) BLOCK PARSER: for the executable model of BlockParser, list_parser and BlockState "
    "(coq/Model/Block.v: scanner loop, eleven handlers, block quotes with lazy continuation and interrupting blocks, lists "
    "with their width-dependent item scanner, HTML blocks, reference definitions) instantiated with the regenerated data: "
    "every accepting handler returns a position beyond the cursor (C01_block_cursor_advances) and every loop terminates - "
    "block_parse never answers Fuel, for every text (C01_block_parser_loops_terminate); the one delicate case, an HTML block "
    "handler returning its own start, is excluded by a proved head-form analysis of the regenerated patterns (a line on "
    "which an HTML rule matched is not blank). The nesting budget of the model answers Exn when used up: the counterpart of "
    "CPython's RecursionError, which the implementation does raise (known finding alternating-container-lines-recursion, "
    "found when the proof for a fixed nesting fuel failed). The models are tied to the source by control skeletons with "
    "constants of every modelled function, regenerated rule orders / patterns / tag lists, and token-tree correspondence "
    "runs (inline, block, whole document). The inline model and its theorems also cover the six inline plugins strikethrough, mark, insert, superscript, subscript and url (registered in create_markdown's order, regenerated). NOT proved: the remaining plugin and directive handlers, CPython's own recursion depth. The oracle runs real conversions in a separate "
    "worker process (crash, hang and RecursionError isolation) over generated documents, nesting pumps up to depth 400 and "
    "hostile code points, for sampled configurations of renderer x escape x hard_wrap x plugin subset x directive style, "
    "in one long-lived process so that cross-instance state shows too.")
ASSUMPTIONS = ["CPython's recursion limit is 1000 in the worker (the library default environment)",
               "a conversion that needs more than the per-document wall limit counts as a hang"]
TRUSTED = ["tools/worker.py, tools/workers.py", "tools/skeletons/ip_*.txt hp_*.txt ipstate_*.txt (control skeletons and constants of the modelled functions)"]
TECHNIQUE = "Coq: termination/progress of the generic scanner loop and totality of the regex engine; the rest by isolated differential execution"

P = gen_docs.ALL_PLUGINS


def pumps(r):
    n = r.choice([8, 40, 120, 400])
    k = r.random()
    if k < 0.03:
        return "> " * n + "x\n"
    if k < 0.06:
        # staircase: every line indented a fixed step deeper than the one before, each starting with a block marker
        step = r.choice([2, 3, 4, 4])
        marks = r.choice([[": "], ["- "], [":   "], ["> "], ["1. "], [": ", "- "], ["- ", ": "], ["* ", "> "]])
        d = min(n, 400)
        return r.choice(["t0\n", "", "t0\n\n"]) + "".join(" " * (step * i) + marks[i % len(marks)] + "t%d\n" % (i + 1) for i in range(d))
    if k < 0.12:
        # containers that interrupt each other line by line
        a, b = r.sample(["- a\n", "> b\n", "1. c\n", "* d\n", ">\n", "+ e\n"], 2)
        return (a + b) * n
    if k < 0.22:
        return "".join(r.choice(["> ", "- ", "1. "]) for _ in range(n)) + "x\n"
    if k < 0.30:
        return "\n".join("  " * i + "- a" for i in range(min(n, 200))) + "\n"
    if k < 0.38:
        return "*" * n + "a" + "*" * n + "\n"
    if k < 0.42:
        return "[" * n + "a" + "]" * n + "(u)\n"
    if k < 0.46:
        # link text that holds raw anchor tags (what the parser remembers about being inside a link must not be undone by them)
        a = r.choice(["[a </a> ", "[a <a> ", "[</a>", "[x <a href=y>z</a> ", "![i </a> [", "[a </A> *e "])
        return a * n + "x" + r.choice(["](u)", "](u) ", "][r]", "]"]) * n + "\n\n[r]: /u\n"
    if k < 0.52:
        return "[![" * min(n, 250) + "x" + "](/i.png)](/u)" * min(n, 250) + "\n"
    if k < 0.58:
        return "_*" * n + "a" + "*_" * n + "\n"
    if k < 0.64:
        return "`" * n + " a " + "`" * (n - 1) + "\n"
    if k < 0.70:
        return "<" * n + "a" + ">" * n + "\n"
    if k < 0.76:
        # nested RST directives
        d = min(n, 12)
        return "".join("   " * i + ".. note:: L%d\n\n" % i for i in range(d)) + "   " * d + "deep\n"
    if k < 0.82:
        d = min(n, 12)
        return "".join(":" * (d + 3 - i) + "{note} L%d\n" % i for i in range(d)) + "x\n" + "".join(":" * (4 + i) + "\n" for i in range(d))
    if k < 0.88:
        d = min(n, 12)
        return "".join("`" * (d + 3 - i) + "{note} L%d\n" % i for i in range(d)) + "x\n" + "".join("`" * (4 + i) + "\n" for i in range(d))
    if k < 0.91:
        # a unit of plugin syntax repeated, on one line or one per line (long runs of adjacent plugin tokens)
        unit = r.choice(["[a(b)]", "[a(b)][c(d)]", "[^1]", "[^n] ", "$a$", "$a$ ", ">!a!<", "~a~", "^a^", "~~a~~", "==a==", "^^a^^", "HTML ",
                         "http://x.y ", "[x] ", "a|b ", "[a(b)](/u)", "[a(b)][r]"])
        return r.choice(["", "# ", "> ", "- "]) + unit * (n * r.choice([1, 8])) + r.choice(["\n", "\n\n[r]: /u\n[^1]: note\n*[HTML]: x\n"])
    if k < 0.94:
        return "~~" * n + "a" + "~~" * n + " " + "==" * n + "b" + "==" * n + " >!" * min(n, 50) + "c" + "!< " * min(n, 50) + "\n"
    return "term\n" + ": def\n" * min(n, 100) + "\n| a |\n|---|\n" + "| b |\n" * min(n, 100)


HOSTILE = ["\x00", "\x01", "\x0b", "\x0c", "\x1c", "\x7f", "\x85", " ", " ", "﻿", "￾", "\U0010ffff", "́", "‮",
           "\U0001f600", " ", "　", "\r", "\r\n"]


def hostile(r):
    base = gen_docs.doc(r, plugins=P, directives=True, max_blocks=3)
    out = list(base)
    for _ in range(r.randint(1, 8)):
        out.insert(r.randrange(len(out) + 1), r.choice(HOSTILE))
    return "".join(out)


def staircases():
    """systematic: every container marker (core and plugins) x indentation step x head line, 400 levels"""
    out = []
    for marks in ([": "], [":   "], ["- "], ["> "], ["1. "], ["[^n]: "], [": ", "- "], ["- ", ": "], ["> ", ": "], ["- ", "> "]):
        for step in (2, 3, 4):
            for head in ("", "t0\n"):
                out.append(head + "".join(" " * (step * i) + marks[i % len(marks)].replace("n", str(i)) + "t%d\n" % (i + 1) for i in range(400)))
    # lone markers (no text after them): '-' and '=' lines are also setext underlines, which have their own path to the list rule
    for mark in ("-", "+", "*", "1.", ">", "="):
        for step in (2, 3):
            for pre in ("", "> > > > > "):
                out.append("".join(pre + " " * (step * i) + mark + "\n" for i in range(400)))
    return out


OPENERS = ["- a\n", "> b\n", "1. c\n", ":::{note}\n", "::::{note} T\n", ".. note::\n\n", "```{note}\n", ">! s\n", "t\n: d\n", "# h\n", "***\n", "<div>\n", "[^n]: x\n",
           "    code\n", "| a |\n|---|\n", "$$\n", ".. note:: T\n   :class: c\n\n"]


def interruptions():
    """systematic: every ordered pair of block openers (containers of core and plugins, directives of all three styles, leaf
    blocks) repeated 130 times line after line, flat and as an indentation staircase: each block may be parsed in place by the
    one it interrupts, or nested in it"""
    out = []
    for a in OPENERS:
        for b in OPENERS:
            if a < b and (a[0] in "->1:.`t" or b[0] in "->1:.`t"):
                out.append((a + b) * 130)
                if a[0] in ":.`" or b[0] in ":.`":
                    out.append("".join("   " * i + a.replace("\n", "\n" + "   " * i).rstrip(" ") + "   " * i + b.replace("\n", "\n" + "   " * i).rstrip(" ") for i in range(130)))
    return out


INTERRUPT_CFGS = [{"renderer": "html", "plugins": ["def_list", "spoiler", "footnotes", "table", "math"], "directives": d} for d in ("colon", "colon+rst", "fenced+rst", "rst")]


def surrogate(r):
    s = r.choice(["\ud800", "\udfff", "\udc80"])
    return r.choice(["[a](%s)", "<http://x/%s>", "text %s", "![i](/p%s 't')", "[r]: /u%s\n\n[r]", "```%s\nc\n```", "| %s |\n|-|\n", "https://e.x/%s"]) % s + "\n"


def alternating(doc):
    """at least 150 lines, and adjacent lines alternate between a block quote line and a list item line"""
    lines = doc.split("\n")
    if lines and lines[-1] == "":
        lines.pop()
    if len(lines) < 150:
        return False
    kinds = ["q" if l.lstrip(" ").startswith(">") else ("l" if __import__("re").match(r" {0,3}([-*+]|\d{1,9}[.)])( |$)", l) else "x") for l in lines]
    return all(k in "ql" for k in kinds) and all(kinds[i] != kinds[i + 1] for i in range(len(kinds) - 1))


def sample_cfg(r):
    k = r.random()
    if k < 0.08:
        return {"renderer": "rst", "plugins": r.choice([[], ["speedup"]])}
    if k < 0.16:
        return {"renderer": "markdown", "plugins": r.choice([[], ["speedup"]])}
    if k < 0.2:
        return {"api": "html"}
    if k < 0.24:
        return {"api": "markdown()", "escape": r.random() < 0.5, "plugins": r.choice([None, ["table"], ["footnotes", "url"]])}
    plugins = r.sample(P + ["speedup"], r.randint(0, len(P) + 1)) if r.random() < 0.7 else list(P)
    d = r.choice([None, None, "fenced", "rst", "colon"])
    cfg = {"renderer": r.choice(["html", "html", "ast"]), "escape": r.random() < 0.6, "hard_wrap": r.random() < 0.3,
           "plugins": plugins, "directives": d}
    if d is None and cfg["renderer"] == "html" and r.random() < 0.4:
        # add_toc_hook: heading texts are parsed a second time, outside the document (the hook asserts a renderer)
        cfg["toc_hook"] = True
    return cfg


def check(w, cfg, doc, fails, limit):
    res = w.run({"cfg": cfg, "doc": doc}, limit)
    want = "list" if cfg.get("renderer") == "ast" else "str"
    if res.get("ok") and res.get("type") == want:
        return True
    f = {"input": doc if len(doc) < 3000 else doc[:1500] + "...(%d chars)" % len(doc), "full_len": len(doc), "config": cfg,
         "kind": "exception" if not res.get("ok") else "wrong-result-type",
         "got": res.get("exc") or res.get("type"), "msg": res.get("msg")}
    if res.get("exc") == "UnicodeEncodeError" and any(0xD800 <= ord(c) <= 0xDFFF for c in doc):
        f["class"] = "lone-surrogate-in-destination"
    if res.get("exc") == "RecursionError" and alternating(doc):
        f["class"] = "alternating-container-lines-recursion"
    fails.append(f)
    return False


def correspondence(ctx):
    import corr_block
    import corr_doc
    import corr_inline
    a = corr_inline.run(ctx, ctx.n(3000, 50000))
    b = corr_block.run(ctx, ctx.n(1500, 30000))
    c = corr_doc.run(ctx, ctx.n(1500, 30000))
    import corr_rst
    d = corr_rst.run(ctx, ctx.n(600, 12000))      # the model of the RST renderer, which C01_rst.v is about
    return {"evaluations": a["evaluations"] + b["evaluations"] + c["evaluations"] + d["evaluations"],
            "disagreements": (a["disagreements"] + b["disagreements"] + c["disagreements"] + d["disagreements"])[:20],
            "parts": {"inline": a["evaluations"], "block": b["evaluations"], "document": c["evaluations"], "RST renderer": d["evaluations"]},
            "samples": a["samples"] + b["samples"]}


def oracle(ctx, extra):
    r = ctx.rng("oracle")
    w = Worker()
    fails = []
    n = 0
    limit = ctx.n(20, 60)
    dist = {"generated": 0, "pump": 0, "hostile": 0, "surrogate": 0, "noise": 0, "interaction": 0}
    try:
        for e in extra:
            if isinstance(e, str):
                check(w, {"renderer": "html", "plugins": P}, e, fails, limit)
        for doc in staircases():
            dist["pump"] += 1
            for cfg in ({"renderer": "html", "plugins": list(P)}, {"renderer": "ast", "plugins": list(P), "hard_wrap": True}):
                check(w, cfg, doc, fails, limit)
                n += 1
        # fenced directives with fence characters of the caller's choice (also ones that mean something in a pattern)
        for c in "+*.%|^$?()[\\-=:!":
            cfg = {"renderer": "html", "plugins": ["table", "footnotes"], "directives": "marker:" + c}
            for doc in (c * 3 + "{note} T\nbody\n" + c * 3 + "\n", c * 4 + "{note}\n" + c * 3 + "{tip}\nx\n" + c * 3 + "\n" + c * 4 + "\n", "- a\n" + c * 3 + "{note}\ntext\n",
                        c * 3 + "{note}\nunclosed " + c * 5 + "\n"):
                dist["pump"] += 1
                check(w, dict(cfg), doc, fails, limit)
                n += 1
        inter = interruptions()
        for j, doc in enumerate(inter if not ctx.quick else [d for i, d in enumerate(inter) if ":" in d[:40] or "." in d[:40] or "`" in d[:40] or i % 3 == 0]):
            dist["pump"] += 1
            for cfg in (INTERRUPT_CFGS if not ctx.quick else [INTERRUPT_CFGS[j % 2], INTERRUPT_CFGS[2 + j % 2]]):
                check(w, dict(cfg), doc, fails, limit)
                n += 1
        for i in range(ctx.n(3000, 60000)):
            k = r.random()
            if k < 0.45:
                doc, kind = gen_docs.doc(r, plugins=P, directives=r.random() < 0.4), "generated"
            elif k < 0.6:
                doc, kind = pumps(r), "pump"
            elif k < 0.72:
                doc, kind = hostile(r), "hostile"
            elif k < 0.75:
                doc, kind = surrogate(r), "surrogate"
            elif k < 0.85:
                doc, kind = gen_docs.noise(r, 1, 200), "noise"
            elif k < 0.9:
                doc, kind = gen_docs.interaction_doc(r), "interaction"
            elif k < 0.95:
                doc, kind = gen_docs.directive_doc(r), "directive"
            else:
                doc, kind = gen_docs.edge_doc(r), "edge"
            need = []
            if i % 10 == 9:
                # a document that really uses one plugin's constructs, under configurations that have the plugin
                need, doc = gen_docs.showcase_for(r)
                kind = "showcase"
            dist[kind] = dist.get(kind, 0) + 1
            for _ in range(2):
                cfg = sample_cfg(r)
                if kind == "directive" and "api" not in cfg and cfg.get("renderer") in ("html", "ast"):
                    cfg["directives"] = {"`": "fenced", "~": "fenced", ":": "colon", ".": "rst"}[doc[0]]
                if kind in ("edge", "showcase") and cfg.get("plugins") is not None and "api" not in cfg and cfg.get("renderer") in ("html", "ast"):
                    cfg["plugins"] = list(dict.fromkeys((need or ["abbr", "footnotes"]) + cfg["plugins"]))
                check(w, cfg, doc, fails, limit)
                n += 1
            if i % 10 == 0:
                # conversion with a file context (Markdown.read): include directives with every kind of target and encoding
                style = r.choice(["fenced", "rst"])
                dist["file-context"] = dist.get("file-context", 0) + 1
                check(w, {"renderer": r.choice(["html", "ast"]), "plugins": r.sample(P, 3), "directives": style, "filectx": True,
                          "escape": r.random() < 0.6}, gen_docs.include_doc(r, style), fails, limit)
                n += 1
            if len([f for f in fails if not f.get("class")]) >= 5:
                break
    finally:
        w.close()
    known = [f for f in fails if f.get("class")]
    fails = [f for f in fails if not f.get("class")] + known[:3]
    return {"evaluations": n, "distinct_nontrivial": n // 2, "failures": fails, "known_finding_instances": len(known),
            "input_distribution": dist,
            "rule": "first every ordered pair of 17 block openers (containers, directives of the three styles, leaf blocks) repeated 130 times line after line, flat and as a staircase, under colon / colon+rst / fenced+rst / rst directive configurations; 84 systematic indentation staircases (10 marker sets of core and plugin containers x step 2/3/4 x with/without a head line, and 6 lone markers x step 2/3 x at top level/inside 5 quotes; 400 levels) under all plugins, html and ast; then documents: 45% generated (all plugins, directives), 15% nesting pumps (quotes, lists, mixed containers, "
                    "emphasis, brackets, alternating link/image, code ticks, angle brackets, indentation staircases of block markers, RST/colon/backtick directives, "
                    "formatting plugins, repeated units of every inline plugin syntax (up to 3200 adjacent tokens), def lists and tables; depth/length 8-400), 12% generated documents with hostile code "
                    "points inserted (controls, line/paragraph separators, BOM, non-characters, combining, bidi, astral), 3% lone "
                    "surrogates, 10% noise up to 200 tokens, 7% interrupt/lazy fragments, 8% edge documents (wide white space at the borders of block text; reference, footnote and abbreviation definitions with degenerate keys: white space only, empty, regex metacharacters), every 10th a showcase of one plugin's constructs under configurations that have the plugin; every 25th iteration a document of include directives converted with a file context (Markdown.read; text, Markdown, HTML, empty, BOM, Latin-1, UTF-16, nested, missing and self targets x valid, unknown and mismatching encodings); each document under 2 sampled "
                    "configurations (renderer html/ast/rst/markdown, escape, hard_wrap, random plugin subset incl. speedup, "
                    "directive style, add_toc_hook, mistune.html, mistune.markdown()) in one long-lived worker with a per-document wall limit",
            "samples": [json.dumps(pumps(ctx.rng('s')))[:120], json.dumps(sample_cfg(ctx.rng('t')))]}


def check_known(ctx, k):
    w = Worker()
    try:
        fails = []
        doc = k["input"] if "input" in k else k["unit"] * k["times"]
        check(w, {"renderer": "html"}, doc, fails, 20)
        return bool(fails)
    finally:
        w.close()


def classify(f, known):
    for k in known:
        if k["id"] == f.get("class"):
            return k["id"]
    return None


def replay(ctx, case):
    c = case.get("case", case)
    w = Worker()
    try:
        fails = []
        check(w, c["config"], c["input"], fails, 60)
        return fails[0] if fails else None
    finally:
        w.close()
