#!/bin/bash
# runs every claimed check (quick by default) on the current /repo tree; prints one line per check
cd "$(dirname "$0")/.."
L="${RUNALL_LOG:-/tmp}"
tier="${1:-quick}"
for id in $(/venv/bin/python -c "import json;print(' '.join(c['property_id'] for c in json.load(open('MANIFEST.json'))['checks']))"); do
  /usr/bin/time -f "%es" ./check $id $tier > $L/runall_$id.log 2>&1; rc=$?
  echo "$id rc=$rc $(grep -c VIOLATION $L/runall_$id.log) violations | $(grep -E "^C[0-9]+ (quick|thorough):" $L/runall_$id.log | tail -1) | $(tail -1 $L/runall_$id.log)"
done
