#!/venv/bin/python
"""Regenerate Gen/*.v from the repo, (re)build the Coq development and the extracted
OCaml runner.  Safe to call concurrently (flock)."""
import fcntl
import glob
import json
import os
import re
import shutil
import sys

sys.path.insert(0, os.path.dirname(os.path.abspath(__file__)))
import translate  # noqa: E402
from common import COQ, OCAML, VERIF, sh, Timer  # noqa: E402

MAKE_TIMEOUT = int(os.environ.get("VERIF_MAKE_TIMEOUT", "2400"))


def coq_files():
    fs = []
    for d in ("Lib", "Gen", "Model", "Proofs", "Props", "Extract"):
        fs += sorted(glob.glob(os.path.join(COQ, d, "*.v")))
    return [os.path.relpath(f, COQ) for f in fs]


def build(targets=None, keep_going=True):
    """Returns dict(ok, failed=[.v files that failed], log, gen=status, wall_s)."""
    t = Timer()
    os.makedirs(os.path.join(VERIF, "build"), exist_ok=True)
    lock = open(os.path.join(VERIF, "build", ".lock"), "w")
    fcntl.flock(lock, fcntl.LOCK_EX)
    try:
        gen = translate.main()
        files = coq_files()
        listing = "\n".join(files)
        stamp = os.path.join(COQ, ".filelist")
        old = open(stamp).read() if os.path.exists(stamp) else None
        if old != listing or not os.path.exists(os.path.join(COQ, "Makefile")):
            rc, out = sh("coq_makefile -f _CoqProject %s -o Makefile" % " ".join(files), cwd=COQ, timeout=120)
            if rc != 0:
                return dict(ok=False, failed=["coq_makefile"], log=out, gen=gen, wall_s=t.s())
            open(stamp, "w").write(listing)
        tg = " ".join(targets) if targets else ""
        rc, out = sh("make -j16 %s %s" % ("-k" if keep_going else "", tg), cwd=COQ, timeout=MAKE_TIMEOUT)
        failed = sorted(set(re.findall(r'File "\./([^"]+\.v)", line \d+, characters [\d-]+:\nError', out)))
        for m in re.finditer(r"\*\*\* \[Makefile[^\]]*: ([^\]]+\.vo)\] Error", out):
            f = m.group(1)[:-1]
            if f not in failed:
                failed.append(f)
        if rc == 124:
            failed.append("make-timeout")
        res = dict(ok=(rc == 0), failed=failed, log=out, gen=gen, wall_s=t.s())
        # extracted runner (only when Extract compiled)
        ml = os.path.join(COQ, "model.ml")
        if os.path.exists(ml) and not any(f.startswith(("Extract", "Model", "Lib", "Gen")) for f in failed):
            exe = os.path.join(OCAML, "model_main")
            need = (not os.path.exists(exe)) or os.path.getmtime(exe) < max(
                os.path.getmtime(ml), os.path.getmtime(os.path.join(OCAML, "driver.ml")))
            if need:
                shutil.copy(ml, os.path.join(OCAML, "model.ml"))
                shutil.copy(ml + "i", os.path.join(OCAML, "model.mli"))
                rc2, out2 = sh("ocamlfind ocamlopt -O3 -w -a -package str model.mli model.ml driver.ml -o model_main 2>&1 || "
                               "ocamlfind ocamlopt -w -a model.mli model.ml driver.ml -o model_main",
                               cwd=OCAML, timeout=600)
                res["ocaml_log"] = out2
                if rc2 != 0:
                    res["ok"] = False
                    res["failed"].append("ocaml")
        else:
            res["runner_stale"] = True
        return res
    finally:
        fcntl.flock(lock, fcntl.LOCK_UN)
        lock.close()


if __name__ == "__main__":
    r = build(sys.argv[1:] or None)
    print(r["log"][-3000:])
    print(r.get("ocaml_log", ""))
    print(json.dumps({k: v for k, v in r.items() if k not in ("log", "ocaml_log", "gen")}))
    sys.exit(0 if r["ok"] else 1)
