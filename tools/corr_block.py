"""Correspondence of the block parser model (coq/Model/Block.v) with BlockParser of the implementation:
same text, block token trees and the reference table compared."""
import json

import gen_docs
from common import run_model


def conv(tokens):
    out = []
    for t in tokens:
        ty = t["type"]
        a = t.get("attrs") or {}
        if ty in ("blank_line", "thematic_break"):
            out.append([ty])
        elif ty == "block_code":
            out.append([ty, t["raw"], t.get("style") == "fenced", t.get("marker", ""), a.get("info")])
        elif ty == "heading":
            out.append([ty, t["text"], a["level"], t.get("style") == "setext"])
        elif ty in ("paragraph", "block_text"):
            out.append([ty, t["text"]])
        elif ty in ("block_quote", "list_item"):
            out.append([ty, conv(t["children"])])
        elif ty == "list":
            out.append([ty, conv(t["children"]), t["tight"], t["bullet"], a["depth"], a["ordered"], a.get("start")])
        elif ty == "block_html":
            out.append([ty, t["raw"]])
        else:
            out.append(["?", ty])
    return out


BLOCK_ALPHABET = ["a", "b c", " ", "  ", "    ", "\t", "\n", "\n", "\n\n", "> ", ">", "- ", "* ", "+ ", "1. ", "2) ", "10. ", "-", "---", "***", "___", "===", "=", "# ", "## ", "#", " #",
                  "```", "````", "~~~", "``` py", "`", "<div>", "</div>", "<pre>", "</pre>", "<!--", "-->", "<?", "?>", "<![CDATA[", "]]>", "<!A", "<a b=\"c\">", "<span>",
                  "[r]: /u", "[r]:", " \"t\"", " 't'", "<u v>", "[x]", "\\", "    code", "  - ", "   > ", ": ", "|"]


def gen_text(r):
    k = r.random()
    if k < 0.45:
        return gen_docs.doc(r, plugins=(), directives=False, max_blocks=5)
    if k < 0.6:
        return gen_docs.interaction_doc(r)
    if k < 0.7:
        return gen_docs.mutate(r, gen_docs.doc(r, plugins=(), directives=False, max_blocks=4))
    if k < 0.95:
        return "".join(r.choice(BLOCK_ALPHABET) for _ in range(r.randint(1, 16)))
    return gen_docs.noise(r, 1, 30)


def run(ctx, n):
    r = ctx.rng("block-corr")
    ctx.mistune  # noqa: B018  (imports the implementation)
    from mistune.block_parser import BlockParser
    from mistune.core import BlockState
    cases, want = [], []
    bp = BlockParser()
    for i in range(n):
        text = gen_text(r)
        if any(0xD800 <= ord(c) <= 0xDFFF for c in text) or "\r" in text:
            continue
        if not text.endswith("\n") and r.random() < 0.8:
            text += "\n"
        st = BlockState()
        st.process(text)
        try:
            bp.parse(st)
            refs = [[k, v["url"], v["label"], v.get("title")] for k, v in st.env["ref_links"].items()]
            got = [conv(st.tokens), refs]
        except RecursionError:
            continue
        except Exception as e:  # noqa
            got = ["error", "exception"]
        cases.append(("block", text))
        want.append(got)
    res = run_model(cases)
    dis = []
    for c, mv, iv in zip(cases, res, want):
        if mv != iv:
            dis.append({"input": c[1], "model": mv, "impl": iv})
    return {"evaluations": len(cases), "disagreements": dis[:20], "samples": [json.dumps(cases[0][1])[:200]]}


if __name__ == "__main__":
    import sys
    sys.path.insert(0, "/verif/tools")
    import check
    ctx = check.Ctx("TB", "quick")
    out = run(ctx, int(sys.argv[1]) if len(sys.argv) > 1 else 500)
    print(out["evaluations"], len(out["disagreements"]))
    for d in out["disagreements"][:6]:
        print(json.dumps(d)[:1500])
