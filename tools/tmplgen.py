"""Render functions (HTMLRenderer methods, plugin/directive render_* functions) -> Coq templates.
Symbolic execution of the Python AST into a decision tree over segment lists; fail-closed."""
import ast


class Unsupported(Exception):
    pass


# ---- symbolic values: decision trees --------------------------------------------------
# tree := ("leaf", segs) | ("node", atom_index, tree_true, tree_false)
# seg  := ("lit", str) | ("ins", param_index, [filters])
# filter := ("escape",) ("safe_entity",) ("safe_url",) ("striptags",) ("strip",) ("rstrip",) ("first_word",) ("str",)
#           ("drop_last", n) ("replace1", old, segs)

def leaf(segs):
    return ("leaf", segs)


def tmap2(f, a, b):
    """combine two trees leafwise"""
    if a[0] == "node":
        return ("node", a[1], tmap2(f, a[2], b), tmap2(f, a[3], b))
    if b[0] == "node":
        return ("node", b[1], tmap2(f, a, b[2]), tmap2(f, a, b[3]))
    return leaf(f(a[1], b[1]))


def tmap(f, a):
    if a[0] == "node":
        return ("node", a[1], tmap(f, a[2]), tmap(f, a[3]))
    return leaf(f(a[1]))


def norm_segs(segs):
    out = []
    for s in segs:
        if s[0] == "lit":
            if not s[1]:
                continue
            if out and out[-1][0] == "lit":
                out[-1] = ("lit", out[-1][1] + s[1])
                continue
        out.append(s)
    return out


class Translator:
    def __init__(self, fn, skip_first, escape_fn, known_consts=None):
        self.fn = fn
        args = [a.arg for a in fn.args.args][skip_first:]
        self.params = list(args)          # positional / keyword parameters, then names fetched from **attrs
        self.kwarg = fn.args.kwarg.arg if fn.args.kwarg else None
        self.selfname = fn.args.args[0].arg if skip_first else None
        self.atoms = []
        self.escape_fn = escape_fn
        self.consts = known_consts or {}

    def pidx(self, name):
        if name not in self.params:
            self.params.append(name)
        return self.params.index(name)

    def atom(self, a):
        if a not in self.atoms:
            self.atoms.append(a)
        return self.atoms.index(a)

    # -- expressions -> tree
    def expr(self, n, env):
        if isinstance(n, ast.Constant) and isinstance(n.value, str):
            return leaf([("lit", n.value)])
        if isinstance(n, ast.Name):
            if n.id in env:
                return env[n.id]
            if n.id in self.params:
                return leaf([("ins", self.pidx(n.id), [])])
            raise Unsupported("name " + n.id)
        if isinstance(n, ast.BinOp) and isinstance(n.op, ast.Add):
            return tmap2(lambda x, y: norm_segs(x + y), self.expr(n.left, env), self.expr(n.right, env))
        if isinstance(n, ast.Subscript):
            # x.split(None, 1)[0]   /   x.rstrip()[:-4]
            v = n.value
            if isinstance(v, ast.Call) and isinstance(v.func, ast.Attribute) and v.func.attr == "split" \
                    and [ast.unparse(a) for a in v.args] == ["None", "1"] and ast.unparse(n.slice) == "0":
                return self.filt(self.expr(v.func.value, env), ("first_word",))
            if isinstance(n.slice, ast.Slice) and n.slice.lower is None and n.slice.step is None \
                    and isinstance(n.slice.upper, ast.UnaryOp) and isinstance(n.slice.upper.op, ast.USub) \
                    and isinstance(n.slice.upper.operand, ast.Constant):
                return self.filt(self.expr(v, env), ("drop_last", int(n.slice.upper.operand.value)))
            raise Unsupported("subscript " + ast.unparse(n))
        if isinstance(n, ast.Call):
            f = n.func
            fname = ast.unparse(f)
            if fname in ("escape_text", "escape") and len(n.args) == 1 and not n.keywords:
                return self.filt(self.expr(n.args[0], env), ("escape",))
            if fname == "safe_entity" and len(n.args) == 1:
                return self.filt(self.expr(n.args[0], env), ("safe_entity",))
            if fname == "striptags" and len(n.args) == 1:
                return self.filt(self.expr(n.args[0], env), ("striptags",))
            if fname == "str" and len(n.args) == 1:
                return self.filt(self.expr(n.args[0], env), ("str",))
            if fname == "render_toc_ul" and len(n.args) == 1:
                return self.filt(self.expr(n.args[0], env), ("toc_ul",))
            if isinstance(f, ast.Attribute):
                if f.attr == "safe_url" and is_name(f.value, self.selfname) and len(n.args) == 1:
                    return self.filt(self.expr(n.args[0], env), ("safe_url",))
                if f.attr == "strip" and not n.args:
                    return self.filt(self.expr(f.value, env), ("strip",))
                if f.attr == "rstrip" and not n.args:
                    return self.filt(self.expr(f.value, env), ("rstrip",))
                if f.attr == "get" and is_name(f.value, self.kwarg) and n.args and isinstance(n.args[0], ast.Constant):
                    return leaf([("ins", self.pidx(n.args[0].value), [])])
                if f.attr == "replace" and len(n.args) == 3 and ast.unparse(n.args[2]) == "1" and isinstance(n.args[0], ast.Constant):
                    old = n.args[0].value
                    new = self.expr(n.args[1], env)
                    base = self.expr(f.value, env)
                    return tmap2(lambda b, nw: self._filt_segs(b, ("replace1", old, nw)), base, new)
            raise Unsupported("call " + ast.unparse(n))
        raise Unsupported("expression " + ast.unparse(n))

    def _filt_segs(self, segs, flt):
        out = []
        for s in segs:
            if s[0] == "ins":
                out.append(("ins", s[1], s[2] + [flt]))
            elif flt[0] == "escape":
                out.append(("lit", self.escape_fn(s[1])))
            elif flt[0] in ("str",):
                out.append(s)
            else:
                raise Unsupported("filter %s on a literal/composite" % flt[0])
        if len(segs) != 1 and flt[0] not in ("escape",):
            raise Unsupported("filter %s on a composite value" % flt[0])
        return out

    def filt(self, tree, flt):
        return tmap(lambda segs: self._filt_segs(segs, flt), tree)

    # -- conditions -> (atom index | constant), negated?
    def cond(self, n, env):
        """returns ('atom', idx, neg) or ('tree', tree_of_bool_consts)"""
        if isinstance(n, ast.UnaryOp) and isinstance(n.op, ast.Not):
            c = self.cond(n.operand, env)
            if c[0] == "atom":
                return ("atom", c[1], not c[2])
            return ("tree", tmap_bool(lambda b: not b, c[1]))
        if isinstance(n, ast.Compare) and len(n.ops) == 1 and isinstance(n.comparators[0], ast.Constant) \
                and n.comparators[0].value is None and isinstance(n.left, ast.Name):
            t = self.expr(n.left, env)
            if t[0] == "leaf" and len(t[1]) == 1 and t[1][0][0] == "ins" and not t[1][0][2]:
                a = self.atom(("notnone", t[1][0][1]))
                return ("atom", a, isinstance(n.ops[0], ast.Is))
            raise Unsupported("None test on a computed value: " + ast.unparse(n))
        if isinstance(n, ast.Attribute) and is_name(n.value, self.selfname) and n.attr == "_escape":
            return ("atom", self.atom(("escape_flag",)), False)
        if isinstance(n, ast.Call) and isinstance(n.func, ast.Attribute):
            if n.func.attr == "startswith" and len(n.args) == 1 and isinstance(n.args[0], ast.Constant):
                t = self.expr(n.func.value, env)
                if t[0] == "leaf" and len(t[1]) == 1 and t[1][0][0] == "ins":
                    return ("atom", self.atom(("startswith", t[1][0][1], tuple(map(tuple_f, t[1][0][2])), n.args[0].value)), False)
            if n.func.attr == "isdigit" and not n.args:
                t = self.expr(n.func.value, env)
                if t[0] == "leaf" and len(t[1]) == 1 and t[1][0][0] == "ins" and not t[1][0][2]:
                    return ("atom", self.atom(("isdigit", t[1][0][1])), False)
            raise Unsupported("condition " + ast.unparse(n))
        if isinstance(n, ast.Name):
            t = self.expr(n, env)
            if t[0] == "leaf" and len(t[1]) == 1 and t[1][0][0] == "ins":
                return ("atom", self.atom(("truthy", t[1][0][1], tuple(map(tuple_f, t[1][0][2])))), False)
            # a computed string: truthiness decided per leaf when it is static

            def static(segs):
                segs = [x for x in segs if not (x[0] == "lit" and not x[1])]
                if not segs:
                    return False
                if any(s[0] == "lit" and s[1] for s in segs):
                    return True
                raise Unsupported("truthiness of a non-literal composite: " + ast.unparse(n))
            return ("tree", tmap_bool_from(static, t))
        raise Unsupported("condition " + ast.unparse(n))

    # -- statements
    def run(self, stmts, env):
        if not stmts:
            raise Unsupported("function may end without return")
        st, rest = stmts[0], stmts[1:]
        if isinstance(st, ast.Return):
            if st.value is None:
                raise Unsupported("bare return")
            return self.expr(st.value, env)
        if isinstance(st, ast.Expr) and isinstance(st.value, ast.Constant):
            return self.run(rest, env)
        if isinstance(st, (ast.Assign, ast.AnnAssign)):
            tg = st.targets[0] if isinstance(st, ast.Assign) else st.target
            if not isinstance(tg, ast.Name) or (isinstance(st, ast.Assign) and len(st.targets) != 1):
                raise Unsupported("assignment " + ast.unparse(st))
            env2 = dict(env)
            env2[tg.id] = self.expr(st.value, env)
            return self.run(rest, env2)
        if isinstance(st, ast.AugAssign) and isinstance(st.op, ast.Add) and isinstance(st.target, ast.Name):
            env2 = dict(env)
            cur = self.expr(st.target, env)
            env2[st.target.id] = tmap2(lambda x, y: norm_segs(x + y), cur, self.expr(st.value, env))
            return self.run(rest, env2)
        if isinstance(st, ast.If):
            c = self.cond(st.test, env)
            t_true = self.run(list(st.body) + rest, dict(env))
            t_false = self.run(list(st.orelse) + rest, dict(env))
            if c[0] == "atom":
                return ("node", c[1], t_false, t_true) if c[2] else ("node", c[1], t_true, t_false)
            return select(c[1], t_true, t_false)
        raise Unsupported("statement " + ast.unparse(st))


def tuple_f(f):
    return tuple(f) if not isinstance(f, tuple) else f


def is_name(n, name):
    return name is not None and isinstance(n, ast.Name) and n.id == name


def tmap_bool(f, t):
    if t[0] == "node":
        return ("node", t[1], tmap_bool(f, t[2]), tmap_bool(f, t[3]))
    return ("leaf", f(t[1]))


def tmap_bool_from(f, t):
    if t[0] == "node":
        return ("node", t[1], tmap_bool_from(f, t[2]), tmap_bool_from(f, t[3]))
    return ("leaf", f(t[1]))


def select(btree, a, b):
    """if btree then a else b, where btree's leaves are Python bools decided under the same atoms"""
    if btree[0] == "node":
        return ("node", btree[1], select(btree[2], restrict(a, btree[1], True), restrict(b, btree[1], True)),
                select(btree[3], restrict(a, btree[1], False), restrict(b, btree[1], False)))
    return a if btree[1] else b


def restrict(t, atom, val):
    if t[0] == "node":
        if t[1] == atom:
            return restrict(t[2] if val else t[3], atom, val)
        return ("node", t[1], restrict(t[2], atom, val), restrict(t[3], atom, val))
    return t


# ---- emission ---------------------------------------------------------------------------
def coq_str(s):
    return "[" + "; ".join(str(ord(c)) for c in s) + "]"


def coq_filter(f):
    k = f[0]
    if k == "escape":
        return "FEscape"
    if k == "safe_entity":
        return "FSafeEntity"
    if k == "safe_url":
        return "FSafeUrl"
    if k == "striptags":
        return "FStriptags"
    if k == "strip":
        return "FStrip"
    if k == "rstrip":
        return "FRstrip"
    if k == "first_word":
        return "FFirstWord"
    if k == "str":
        return "FStr"
    if k == "toc_ul":
        return "FStr"
    if k == "drop_last":
        return "(FDropLast %d%%nat)" % f[1]
    if k == "replace1":
        return "(FReplace1 %s [%s])" % (coq_str(f[1]), "; ".join(coq_seg(s) for s in f[2]))
    raise Unsupported("filter " + k)


def coq_seg(s):
    if s[0] == "lit":
        return "SLit %s" % coq_str(s[1])
    return "SIns %d%%nat [%s]" % (s[1], "; ".join(coq_filter(f) for f in s[2]))


def coq_tree(t):
    if t[0] == "node":
        return "(TIf %d%%nat %s %s)" % (t[1], coq_tree(t[2]), coq_tree(t[3]))
    segs = t[1]
    if not segs:
        return "(TLit [])"
    items = [("(TLit %s)" % coq_str(s[1])) if s[0] == "lit" else
             ("(TIns %d%%nat [%s])" % (s[1], "; ".join(coq_filter(f) for f in s[2]))) for s in segs]
    out = items[-1]
    for it in reversed(items[:-1]):
        out = "(TCat %s %s)" % (it, out)
    return out


def coq_atom(a):
    k = a[0]
    fl = lambda fs: "[" + "; ".join(coq_filter(f) for f in fs) + "]"  # noqa
    if k == "truthy":
        return "ATruthy %d%%nat %s" % (a[1], fl(a[2]))
    if k == "notnone":
        return "ANotNone %d%%nat" % a[1]
    if k == "escape_flag":
        return "AEscapeFlag"
    if k == "startswith":
        return "AStartswith %d%%nat %s %s" % (a[1], fl(a[2]), coq_str(a[3]))
    if k == "isdigit":
        return "AIsDigit %d%%nat" % a[1]
    raise Unsupported("atom " + k)


def translate_function(fn, skip_first, escape_fn):
    tr = Translator(fn, skip_first, escape_fn)
    body = list(fn.body)
    if body and isinstance(body[0], ast.Expr) and isinstance(body[0].value, ast.Constant):
        body = body[1:]
    tree = tr.run(body, {})
    return tr, tree
