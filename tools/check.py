#!/venv/bin/python
"""check.py <ID> [--tier quick|thorough] [--replay FILE]

One run =
  1. regenerate coq/Gen from the repository's current source (translator, fail-closed)
  2. rebuild the Coq cone of Props/<ID>.v (full .vo) and the extracted model runner
  3. collect `Print Assumptions` of the property theorems
  4. correspondence: extracted model vs implementation on generated inputs
  5. implementation-level oracle (the property stated directly on the real code) on the
     same inputs + corpus: this is the failing-input search, it never replaces a theorem
  6. verdict, evidence/<ID>.json, replay file
Exit 0 = property held on everything explored; exit 1 + "VIOLATION property=<ID> replay=<path>".
"""
import argparse
import importlib
import json
import os
import re
import sys
import time
import traceback

HERE = os.path.dirname(os.path.abspath(__file__))
sys.path.insert(0, HERE)
import build as buildmod  # noqa: E402
import common  # noqa: E402
from common import COQ, VERIF, Timer, sh, sha  # noqa: E402

TRUSTED_BASE_COMMON = [
    "Coq 8.16.1 kernel (coqc, full .vo build); vm_compute where a proof says so; no native_compute",
    "no Axiom/Parameter/Admitted in the development (grep-checked on every run); Print Assumptions output recorded below",
    "translator tools/translate.py (Python ast / runtime introspection of the repo under test)",
    "extraction: ExtrOcamlBasic only (Extract Inductive for bool/list/prod/option/unit/sumbool as that library declares; no Extract Constant); ocaml/driver.ml",
    "hand-written models of CPython builtins in coq/Lib/PyStr.v (validated by correspondence)",
    "correspondence harness and oracles in tools/ (differential testing; supports the tie, is not a proof)",
]


class Ctx:
    def __init__(self, pid, tier):
        self.pid = pid
        self.tier = tier
        self.quick = tier == "quick"
        self.seed = common.seed()
        self.timer = Timer()
        self.notes = []
        self.gen_errors = []
        self._mistune = None

    def rng(self, tag=""):
        return common.rng("%s/%s" % (self.pid, tag))

    @property
    def mistune(self):
        if self._mistune is None:
            self._mistune = common.import_impl()
        return self._mistune

    def n(self, quick, thorough):
        return quick if self.quick else thorough


def load_known():
    p = os.path.join(VERIF, "known_findings.json")
    if not os.path.exists(p):
        return []
    with open(p) as f:
        return json.load(f).get("findings", [])


def coq_cone(vfile):
    """Transitive .v dependencies of a Props file inside coq/ (via coqdep)."""
    rc, out = sh("coqdep -f _CoqProject -sort %s 2>/dev/null" % vfile, cwd=COQ, timeout=120)
    files = [f for f in out.split() if f.endswith(".v")]
    if vfile not in files:
        files.append(vfile)
    return files


THM_RE = re.compile(r"^\s*(Theorem|Lemma|Corollary|Example|Fact|Proposition)\s+([A-Za-z0-9_']+)", re.M)
FORBID_RE = re.compile(r"\b(Admitted|admit|Axiom|Axioms|Parameter|Parameters|Conjecture|Abort All|Unset Guard Checking|"
                       r"bypass_check|Admit Obligations|Unset Universe Checking|Unset Positivity Checking|type-in-type)\b")


def strip_comments(text):
    out, depth, i = [], 0, 0
    while i < len(text):
        if text.startswith("(*", i):
            depth += 1
            i += 2
        elif text.startswith("*)", i) and depth:
            depth -= 1
            i += 2
        else:
            if not depth:
                out.append(text[i])
            i += 1
    return "".join(out)


def scan_sources(files):
    thms, forbidden = [], []
    for f in files:
        try:
            txt = strip_comments(open(os.path.join(COQ, f), encoding="utf-8").read())
        except FileNotFoundError:
            continue
        for m in THM_RE.finditer(txt):
            thms.append("%s:%s" % (f, m.group(2)))
        for m in FORBID_RE.finditer(txt):
            forbidden.append("%s: %s" % (f, m.group(1)))
        if re.search(r"^\s*(Variable|Hypothesis|Variables|Hypotheses)\b", txt, re.M):
            # allowed only inside a Section
            depth = 0
            for line in txt.splitlines():
                if re.match(r"\s*Section\s", line):
                    depth += 1
                elif re.match(r"\s*End\s", line) and depth:
                    depth -= 1
                elif re.match(r"\s*(Variable|Hypothesis|Variables|Hypotheses)\b", line) and depth == 0:
                    forbidden.append("%s: %s outside section" % (f, line.strip()[:40]))
    return thms, forbidden


def run_coq(prop_mod, ctx):
    """Build the property's cone; return dict describing proof status."""
    targets = list(getattr(prop_mod, "COQ", ["Props/%s.vo" % ctx.pid]))
    b = buildmod.build(targets=targets + ["Extract/Extract.vo"])
    res = {"build_ok": b["ok"], "failed": b["failed"], "gen": b["gen"], "build_wall_s": b["wall_s"],
           "log_tail": b["log"][-4000:], "assumptions": [], "obligations": 0, "discharged": 0,
           "theorems": [], "forbidden": []}
    gen_bad = [g for g in getattr(prop_mod, "GEN", []) if not b["gen"].get(g, {}).get("ok")]
    res["gen_failed"] = ["%s: %s" % (g, b["gen"].get(g, {}).get("error")) for g in gen_bad]
    res["gen_sha"] = {g: b["gen"].get(g, {}).get("sha") for g in getattr(prop_mod, "GEN", [])}
    cone = []
    for tg in targets:
        cone += [f for f in coq_cone(tg[:-1]) if f not in cone]
    thms, forbidden = scan_sources(cone)
    res["theorems"] = thms
    res["obligations"] = len(thms)
    res["forbidden"] = forbidden
    res["cone"] = cone
    cone_failed = [f for f in b["failed"] if f in cone or f in ("make-timeout", "coq_makefile")]
    res["cone_failed"] = cone_failed
    # Print Assumptions: recompile the Props files alone (their deps are built) and keep the output
    pa = []
    for tg in targets:
        v = tg[:-1]
        if any(f in cone_failed for f in coq_cone(v)):
            continue
        rc, out = sh("coqc -Q Lib Verif -Q Gen Verif -Q Model Verif -Q Proofs Verif -Q Props Verif %s" % v,
                     cwd=COQ, timeout=1200)
        if rc != 0:
            cone_failed.append(v)
            res["log_tail"] += "\n" + out[-2000:]
        else:
            pa.append(out.strip())
    res["assumptions"] = pa
    res["discharged"] = 0 if cone_failed or forbidden else len(thms)
    res["proof_ok"] = not cone_failed and not forbidden and not gen_bad
    res["runner_ok"] = os.path.exists(os.path.join(common.OCAML, "model_main")) and not b.get("runner_stale") \
        and "ocaml" not in b["failed"]
    return res


def write_replay(pid, payload):
    d = os.path.join(VERIF, "replays")
    os.makedirs(d, exist_ok=True)
    body = json.dumps(payload, indent=1, sort_keys=True, ensure_ascii=True, default=repr)
    path = os.path.join(d, "%s-%s.json" % (pid, sha(body)))
    with open(path, "w") as f:
        f.write(body)
    return path


def main():
    ap = argparse.ArgumentParser()
    ap.add_argument("pid")
    ap.add_argument("--tier", default=os.environ.get("VERIF_TIER", "quick"), choices=["quick", "thorough"])
    ap.add_argument("--replay")
    ap.add_argument("--skip-coq", action="store_true", help="development only: reuse the existing build")
    args = ap.parse_args()
    pid = args.pid
    ctx = Ctx(pid, args.tier)
    mod = importlib.import_module("props." + pid)

    if args.replay:
        with open(args.replay) as f:
            case = json.load(f)
        r = mod.replay(ctx, case)
        if r:
            print("REPLAY still fails: %s" % json.dumps(r, default=repr)[:2000])
            print("VIOLATION property=%s replay=%s" % (pid, args.replay))
            sys.exit(1)
        print("REPLAY passes now")
        sys.exit(0)

    def on_timeout():
        path = write_replay(pid, {"property": pid, "kind": "check-timeout",
                                  "detail": "check exceeded its watchdog; the check could not complete",
                                  "notes": ctx.notes})
        print("VIOLATION property=%s replay=%s no-failing-input-found" % (pid, path), flush=True)
        os._exit(1)

    wd = common.watchdog(getattr(mod, "WATCHDOG_S", (1500, 7200))[0 if ctx.quick else 1], on_timeout)

    coq = {"proof_ok": True, "runner_ok": True, "skipped": True, "obligations": 0, "discharged": 0,
           "assumptions": [], "theorems": [], "forbidden": [], "cone_failed": [], "gen_failed": []}
    if not args.skip_coq:
        coq = run_coq(mod, ctx)

    known = [k for k in load_known() if k.get("property") == pid and k.get("status") == "known"]
    failures = []      # concrete failing inputs against the real code
    breaks = []        # proof / tie / correspondence breaks (names)
    stats = {}

    ctx.gen_errors = list(coq.get("gen_failed", []))
    if not coq["proof_ok"]:
        for g in coq["gen_failed"]:
            breaks.append("translator: " + g)
        for f in coq["cone_failed"]:
            breaks.append("coq: %s does not compile" % f)
        for f in coq["forbidden"]:
            breaks.append("forbidden construct: " + f)

    # correspondence
    corr = {"evaluations": 0, "disagreements": []}
    if coq["runner_ok"]:
        try:
            corr = mod.correspondence(ctx)
        except Exception as e:
            corr = {"evaluations": 0, "disagreements": [], "error": "%s: %s" % (type(e).__name__, e),
                    "trace": traceback.format_exc()[-1500:]}
            breaks.append("correspondence harness raised: %s: %s" % (type(e).__name__, e))
    else:
        breaks.append("model runner not built (model does not compile against regenerated data)")
    for d in corr.get("disagreements", [])[:20]:
        breaks.append("correspondence: model and implementation differ on %s" % json.dumps(d, default=repr)[:300])

    # oracle = failing-input search on the real code; fed with diverging inputs first
    try:
        orc = mod.oracle(ctx, [d.get("input") for d in corr.get("disagreements", []) if "input" in d])
    except Exception as e:
        orc = {"evaluations": 0, "failures": [], "error": "%s: %s" % (type(e).__name__, e),
               "trace": traceback.format_exc()[-1500:]}
        breaks.append("oracle harness raised: %s: %s" % (type(e).__name__, e))
    failures = orc.get("failures", [])

    # known findings
    new_failures, known_hits = [], {}
    for f in failures:
        kid = None
        if hasattr(mod, "classify"):
            kid = mod.classify(f, known)
        if kid:
            known_hits.setdefault(kid, f)
        else:
            new_failures.append(f)
    for k in known:
        still = k["id"] in known_hits
        if not still and hasattr(mod, "check_known"):
            try:
                still = bool(mod.check_known(ctx, k))
            except Exception as e:  # noqa
                still = True
                ctx.notes.append("check_known raised %s" % e)
        if still:
            known_hits.setdefault(k["id"], {"listed": True})
            print("KNOWN-FINDING: property=%s %s" % (pid, k["summary"]))

    exit_code = 0
    replay_path = None
    if new_failures:
        f0 = new_failures[0]
        replay_path = write_replay(pid, {"property": pid, "kind": "failing-input", "case": f0,
                                         "other_failures": new_failures[1:10], "breaks": breaks,
                                         "replay_cmd": "tools/check.py %s --replay <this file>" % pid})
        print("VIOLATION property=%s replay=%s" % (pid, replay_path))
        exit_code = 1
    elif breaks:
        replay_path = write_replay(pid, {"property": pid, "kind": "proof-or-correspondence-broken",
                                         "no_longer_checks": breaks, "coq_log_tail": coq.get("log_tail", "")[-3000:],
                                         "corr_error": corr.get("error"), "oracle_error": orc.get("error"),
                                         "detail": "no concrete failing input was found by the oracle search"})
        print("VIOLATION property=%s replay=%s no-failing-input-found" % (pid, replay_path))
        exit_code = 1

    wd.cancel()
    level = getattr(mod, "LEVEL", "proof")
    cov = {
        "obligations": coq["obligations"],
        "discharged": coq["discharged"],
        "checker_cmd": "cd /verif/coq && make -k -j16 %s Extract/Extract.vo  (coqc 8.16.1, full .vo); then coqc Props/%s.v for Print Assumptions"
                       % (" ".join(getattr(mod, "COQ", ["Props/%s.vo" % pid])), pid),
        "trusted_base": TRUSTED_BASE_COMMON + list(getattr(mod, "TRUSTED", [])) +
                        ["Print Assumptions: " + a.replace("\n", " | ")[:1500] for a in coq["assumptions"]],
        "theorems": coq["theorems"],
        "regenerated_data": coq.get("gen_sha", {}),
        "traces_validated_against_impl": corr.get("evaluations", 0),
        "correspondence": {k: v for k, v in corr.items() if k not in ("disagreements",)},
        "correspondence_disagreements": len(corr.get("disagreements", [])),
        "evaluations": orc.get("evaluations", 0),
        "distinct_nontrivial": orc.get("distinct_nontrivial", 0),
        "rule": orc.get("rule", ""),
        "samples": (orc.get("samples") or corr.get("samples") or ["<none>"])[:8],
        "oracle": {k: v for k, v in orc.items() if k not in ("failures", "samples")},
        "explanation": getattr(mod, "EXPLANATION", ""),
        "known_findings_replayed": sorted(known_hits),
        "breaks": breaks,
        "exhaustive": bool(orc.get("exhaustive", False)),
    }
    ev = {
        "property_id": pid, "tier": ctx.tier, "seed": ctx.seed, "level": level, "coverage": cov,
        "assumptions": list(getattr(mod, "ASSUMPTIONS", [])),
        "wall_s": ctx.timer.s(), "violations": len(new_failures) + (1 if (breaks and not new_failures) else 0),
    }
    os.makedirs(os.path.join(VERIF, "evidence"), exist_ok=True)
    with open(os.path.join(VERIF, "evidence", pid + ".json"), "w") as f:
        json.dump(ev, f, indent=1, sort_keys=True, default=repr)
    print("%s %s: obligations %d/%d discharged, correspondence %d cases (%d disagreements), oracle %d cases "
          "(%d failures, %d known) in %.1fs"
          % (pid, ctx.tier, coq["discharged"], coq["obligations"], corr.get("evaluations", 0),
             len(corr.get("disagreements", [])), orc.get("evaluations", 0), len(failures),
             len(failures) - len(new_failures), ctx.timer.s()))
    sys.exit(exit_code)


if __name__ == "__main__":
    main()
