"""Shared helpers for the verification harness (stdlib only)."""
import hashlib
import json
import os
import random
import subprocess
import sys
import threading
import time

VERIF = os.path.dirname(os.path.dirname(os.path.abspath(__file__)))
REPO = os.environ.get("VERIF_REPO", "/repo")
SRC = os.path.join(REPO, "src")
COQ = os.path.join(VERIF, "coq")
GEN = os.path.join(COQ, "Gen")
OCAML = os.path.join(VERIF, "ocaml")
PY = "/venv/bin/python"
GUARD = "MISTUNE_VERIF"


def impl_env(extra=None):
    env = dict(os.environ)
    env["PYTHONPATH"] = SRC
    env["PYTHONHASHSEED"] = "0"
    env["PIP_NO_INDEX"] = "1"
    env[GUARD] = "1"
    env["PYTHONDONTWRITEBYTECODE"] = "1"
    if extra:
        env.update(extra)
    return env


def import_impl():
    """Import mistune from the repo under test into this process."""
    os.environ[GUARD] = "1"
    sys.dont_write_bytecode = True
    if SRC not in sys.path:
        sys.path.insert(0, SRC)
    for k in list(sys.modules):
        if k == "mistune" or k.startswith("mistune."):
            del sys.modules[k]
    import mistune  # noqa
    assert os.path.abspath(mistune.__file__).startswith(os.path.abspath(SRC)), mistune.__file__
    return mistune


def seed():
    try:
        return int(os.environ.get("VERIF_SEED", "1"))
    except ValueError:
        return 1


def rng(tag=""):
    return random.Random("%d/%s" % (seed(), tag))


def sh(cmd, timeout=None, cwd=None, env=None, input=None):
    """Run a command; returns (rc, stdout+stderr). stdin is never inherited."""
    try:
        p = subprocess.run(cmd, shell=isinstance(cmd, str), cwd=cwd, env=env,
                           input=input, stdin=None if input is not None else subprocess.DEVNULL,
                           stdout=subprocess.PIPE, stderr=subprocess.STDOUT, timeout=timeout, text=True)
        return p.returncode, p.stdout
    except subprocess.TimeoutExpired as e:
        out = e.stdout or ""
        if isinstance(out, bytes):
            out = out.decode("utf-8", "replace")
        return 124, out + "\n[timeout after %ss]" % timeout


def write_if_changed(path, text):
    try:
        with open(path, encoding="utf-8") as f:
            if f.read() == text:
                return False
    except FileNotFoundError:
        pass
    os.makedirs(os.path.dirname(path), exist_ok=True)
    tmp = path + ".tmp%d" % os.getpid()
    with open(tmp, "w", encoding="utf-8") as f:
        f.write(text)
    os.replace(tmp, path)
    return True


def sha(text):
    if isinstance(text, str):
        text = text.encode("utf-8", "surrogatepass")
    return hashlib.sha256(text).hexdigest()[:16]


# ---------- wire format for the extracted model ----------

def enc(v):
    if v is None:
        return "N"
    if v is True:
        return "T"
    if v is False:
        return "F"
    if isinstance(v, int):
        return "#%d" % v
    if isinstance(v, str):
        return "[ " + " ".join(str(ord(c)) for c in v) + " ]"
    if isinstance(v, (list, tuple)):
        return "( " + " ".join(enc(x) for x in v) + " )"
    raise TypeError(type(v))


def dec(line):
    toks = line.split(";")[0].split()
    pos = 0

    def go():
        nonlocal pos
        t = toks[pos]
        pos += 1
        if t == "N":
            return None
        if t == "T":
            return True
        if t == "F":
            return False
        if t == "[":
            cs = []
            while toks[pos] != "]":
                cs.append(chr(int(toks[pos])))
                pos += 1
            pos += 1
            return "".join(cs)
        if t == "(":
            l = []
            while toks[pos] != ")":
                l.append(go())
            pos += 1
            return l
        if t[0] == "#":
            return int(t[1:])
        raise ValueError("bad token %r" % t)

    return go()


def _run_model_1(requests, timeout):
    exe = os.path.join(OCAML, "model_main")
    data = "\n".join(enc([name, arg]) for name, arg in requests) + "\n"
    p = subprocess.run(["bash", "-c", "ulimit -s unlimited 2>/dev/null; exec " + exe], input=data,
                       stdout=subprocess.PIPE, stderr=subprocess.PIPE, text=True, timeout=timeout)
    lines = p.stdout.split("\n")
    if lines and lines[-1] == "":
        lines.pop()
    if len(lines) != len(requests):
        raise RuntimeError("model returned %d replies for %d requests (rc=%s): %s"
                           % (len(lines), len(requests), p.returncode, p.stderr[-500:]))
    return [dec(l) for l in lines]


def run_model(requests, timeout=600):
    """requests: list of (name, arg). Returns list of decoded replies (in order).  The extracted model answers one request per
    line and keeps nothing between requests, so a long list is cut into contiguous shards that run side by side."""
    requests = list(requests)
    shards = min(12, len(requests) // 400)
    if shards < 2:
        return _run_model_1(requests, timeout)
    import concurrent.futures as cf
    size = -(-len(requests) // shards)
    parts = [requests[i:i + size] for i in range(0, len(requests), size)]
    with cf.ThreadPoolExecutor(max_workers=len(parts)) as ex:
        outs = list(ex.map(lambda part: _run_model_1(part, timeout), parts))
    return [v for out in outs for v in out]


def is_model_error(v):
    return isinstance(v, list) and len(v) == 2 and v[0] == "error"


# ---------- watchdog ----------

def watchdog(seconds, on_fire):
    t = threading.Timer(seconds, on_fire)
    t.daemon = True
    t.start()
    return t


class Timer:
    def __init__(self):
        self.t0 = time.time()

    def s(self):
        return round(time.time() - self.t0, 2)


def shrink_text(s, still_fails, budget=400):
    """delta debugging on a string: remove lines, then chunks, then single characters while
    [still_fails](candidate) stays true. Deterministic; at most [budget] predicate calls."""
    calls = [0]

    def ok(c):
        if calls[0] >= budget:
            return False
        calls[0] += 1
        try:
            return bool(still_fails(c))
        except Exception:  # noqa
            return False
    # lines
    changed = True
    while changed and calls[0] < budget:
        changed = False
        lines = s.split("\n")
        for i in range(len(lines)):
            c = "\n".join(lines[:i] + lines[i + 1:])
            if c != s and ok(c):
                s, changed = c, True
                break
    # chunks of decreasing size
    n = max(1, len(s) // 2)
    while n >= 1 and calls[0] < budget:
        i, changed = 0, False
        while i < len(s):
            c = s[:i] + s[i + n:]
            if c != s and ok(c):
                s, changed = c, True
            else:
                i += n
        if not changed:
            n //= 2
    return s
