"""Static write-footprint inventory of src/mistune: every statement that stores into an
attribute / subscript, deletes one, or calls a mutating method, keyed by
file:function:normalised-statement.  Used by the C08 tie (translator)."""
import ast
import os

MUTATORS = {"append", "insert", "pop", "remove", "clear", "update", "setdefault", "extend", "add", "discard", "sort",
            "reverse", "popitem", "appendleft"}


def _root(node):
    while isinstance(node, (ast.Attribute, ast.Subscript, ast.Call)):
        node = node.func if isinstance(node, ast.Call) else node.value
    return node.id if isinstance(node, ast.Name) else None


class _Fn(ast.NodeVisitor):
    def __init__(self, fname, qual, out):
        self.fname, self.qual, self.out = fname, qual, out
        self.assigned = {}   # local name -> set of RHS texts

    def add(self, kind, node, extra=""):
        self.out.append("%s:%s:%s:%s%s" % (self.fname, self.qual, kind, " ".join(ast.unparse(node).split()), extra))

    def visit_FunctionDef(self, node):   # nested function: its own scope
        sub = _Fn(self.fname, self.qual + "." + node.name, self.out)
        for st in node.body:
            sub.visit(st)
        sub.finish()
    visit_AsyncFunctionDef = visit_FunctionDef

    def visit_Lambda(self, node):
        self.generic_visit(node)

    def _targets(self, targets, node):
        for t in targets:
            if isinstance(t, (ast.Tuple, ast.List)):
                self._targets(t.elts, node)
            elif isinstance(t, (ast.Attribute, ast.Subscript)):
                self.add("store", node)
            elif isinstance(t, ast.Name):
                self.assigned.setdefault(t.id, set()).add(" ".join(ast.unparse(getattr(node, "value", node)).split())
                                                          if getattr(node, "value", None) is not None else "?")

    def visit_Assign(self, node):
        self._targets(node.targets, node)
        self.generic_visit(node)

    def visit_AugAssign(self, node):
        if isinstance(node.target, (ast.Attribute, ast.Subscript)):
            self.add("store", node)
        self.generic_visit(node)

    def visit_AnnAssign(self, node):
        if node.value is not None:
            self._targets([node.target], node)
        self.generic_visit(node)

    def visit_Delete(self, node):
        self.add("delete", node)

    def visit_Global(self, node):
        self.add("global", node)

    def visit_Nonlocal(self, node):
        self.add("nonlocal", node)

    def visit_Call(self, node):
        if isinstance(node.func, ast.Attribute) and node.func.attr in MUTATORS:
            self.pending = getattr(self, "pending", [])
            self.pending.append(node)
        self.generic_visit(node)

    def finish(self):
        for node in getattr(self, "pending", []):
            recv = node.func.value
            r = _root(recv)
            src = ""
            if isinstance(recv, ast.Name) and recv.id in self.assigned:
                src = " <- {" + " | ".join(sorted(self.assigned[recv.id])) + "}"
            self.add("mutate", node, src)


def inventory(src_root):
    out = []
    base = os.path.join(src_root, "mistune")
    for dp, dn, fn in sorted(os.walk(base)):
        dn.sort()
        for f in sorted(fn):
            if not f.endswith(".py"):
                continue
            path = os.path.join(dp, f)
            rel = os.path.relpath(path, base)
            tree = ast.parse(open(path, encoding="utf-8").read())

            def walk(body, qual):
                for node in body:
                    if isinstance(node, (ast.FunctionDef, ast.AsyncFunctionDef)):
                        v = _Fn(rel, (qual + "." if qual else "") + node.name, out)
                        for st in node.body:
                            v.visit(st)
                        v.finish()
                    elif isinstance(node, ast.ClassDef):
                        walk(node.body, (qual + "." if qual else "") + node.name)
                    elif isinstance(node, (ast.Assign, ast.AnnAssign)) and qual == "":
                        # module-level mutable containers are potential cross-call state
                        val = getattr(node, "value", None)
                        if isinstance(val, (ast.Dict, ast.List, ast.Set, ast.ListComp, ast.DictComp, ast.SetComp)) or \
                                (isinstance(val, ast.Call) and isinstance(val.func, ast.Name) and val.func.id in ("dict", "list", "set", "defaultdict")):
                            tg = node.targets[0] if isinstance(node, ast.Assign) else node.target
                            out.append("%s:<module>:mutable-global:%s" % (rel, ast.unparse(tg)))
                    elif isinstance(node, (ast.Assign, ast.AnnAssign)) and qual:
                        val = getattr(node, "value", None)
                        if isinstance(val, (ast.Dict, ast.List, ast.Set)):
                            tg = node.targets[0] if isinstance(node, ast.Assign) else node.target
                            out.append("%s:%s:mutable-class-attr:%s" % (rel, qual, ast.unparse(tg)))
            walk(tree.body, "")
            # mutable default arguments
            for node in ast.walk(tree):
                if isinstance(node, (ast.FunctionDef, ast.AsyncFunctionDef)):
                    for d in node.args.defaults + [x for x in node.args.kw_defaults if x is not None]:
                        if isinstance(d, (ast.Dict, ast.List, ast.Set)) or (isinstance(d, ast.Call)):
                            out.append("%s:%s:mutable-default:%s" % (rel, node.name, ast.unparse(d)))
    return sorted(set(out))


if __name__ == "__main__":
    import sys
    for l in inventory(sys.argv[1] if len(sys.argv) > 1 else "/repo/src"):
        print(l)
