"""Correspondence of the core conversion with the RST renderer (coq/Model/RstDoc.v over Doc.v) with
create_markdown(renderer="rst", hard_wrap=)."""
import json

import corr_block
from common import run_model


def run(ctx, n):
    m = ctx.mistune
    r = ctx.rng("rst-corr")
    from mistune.renderers.rst import RSTRenderer
    mds = {hw: m.create_markdown(renderer=RSTRenderer(), hard_wrap=hw) for hw in (False, True)}
    cases, want = [], []
    hot = ["![a](u)\n", "![a *b*](u \"T\")\n", "![a\nb](u 'T')\n\nx ![c](v)\n", "![a ![b](c)](d) x\n", "![[x ![y](z)](w)](v) t\n", "a  \nb <linebreak> c\n",
           "[a](linebreak)  \nb\n", "`<linebreak>`\n", "a\\\n<linebreak>\n", "- > q\n\n> z\n\n- a\n> b\n", "# h\n> q\n\n    code\n> q2\n", "``` py x\nc\n```\n> q\n",
           "x|y\n", "- a\n\n  - b\n\n    c\n- ![i](u)\n", "> ![i](u)\n>\n> ![j](v) k\n", "<div>\nx\n</div>\n\n> q\n", "1. a\n2. b\n\n   ![i](u)\n", "h\n=\n\n![i](u) ![j](v)\n---\n",
           "```\n\n  \n x\n```\n", "    a\n\n     \n    b\n", "* * *\n> q\n", "a\x0cb  \nc\x1cd\n", "> a\x0bb\n> c\n"]
    for i in range(n):
        text = hot[i] if i < len(hot) else corr_block.gen_text(r)
        if i >= len(hot) and r.random() < 0.08:
            # a paragraph that is one image (the figure form), images in nested places
            text = r.choice(["", "> ", "- ", "1. "]) + "![" + r.choice(["a", "a *b*", "x `c` y", "l1\nl2", ""]) + "](" + r.choice(["u", "/p?q=1", "<a b>"]) + r.choice(["", " \"T\"", " 'x y'"]) + ")" + r.choice(["\n", "\n\n" + text, " t\n"])
        if any(0xD800 <= ord(c) <= 0xDFFF for c in text):
            continue
        hw = r.random() < 0.2
        try:
            got = mds[hw](text)
        except RecursionError:
            continue
        except Exception:  # noqa
            got = ["error", "exception"]
        cases.append(("rst", [text, hw]))
        want.append(got)
    res = run_model(cases)
    dis = [{"input": c[1][0], "hard_wrap": c[1][1], "model": mv, "impl": iv} for c, mv, iv in zip(cases, res, want) if mv != iv]
    return {"evaluations": len(cases), "disagreements": dis[:20], "samples": [json.dumps(cases[0][1][0])[:200]]}


if __name__ == "__main__":
    import sys
    import check
    ctx = check.Ctx("TM", "quick")
    out = run(ctx, int(sys.argv[1]) if len(sys.argv) > 1 else 500)
    print(out["evaluations"], len(out["disagreements"]))
    for d in out["disagreements"][:8]:
        print(json.dumps(d)[:1500])
