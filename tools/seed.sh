#!/bin/bash
# seed.sh confirm <srcdir> <name>   : verify a candidate mutant in a scratch worktree, then keep it as seeded/<name>/
# seed.sh run <name> [tier]          : apply seeded/<name>/patch.diff to /repo, run its property's check, revert
set -u
cd /verif
cmd="$1"; shift
if [ "$cmd" = confirm ]; then
  src="$1"; name="$2"; wt=/tmp/confirm_$$
  git -C /repo worktree add -q --detach $wt HEAD || exit 2
  ( cd $wt && git apply "$src/patch.diff" ) || { echo "PATCH DOES NOT APPLY"; git -C /repo worktree remove --force $wt; exit 2; }
  tests=$(cd $wt && PYTHONPATH=$wt/src timeout 900 /venv/bin/python -m pytest -q -p no:cacheprovider 2>&1 | tail -1)
  demo_mut=$(cd $wt && PYTHONPATH=$wt/src timeout 300 /venv/bin/python "$src/demo.py" </dev/null >/dev/null 2>&1; echo $?)
  ( cd $wt && git checkout -q -- . )
  demo_clean=$(cd $wt && PYTHONPATH=$wt/src timeout 300 /venv/bin/python "$src/demo.py" </dev/null >/dev/null 2>&1; echo $?)
  git -C /repo worktree remove --force $wt
  echo "$name: tests='$tests' demo_with_mutant=$demo_mut demo_clean=$demo_clean"
  if echo "$tests" | grep -q "948 passed" && [ "$demo_mut" != 0 ] && [ "$demo_clean" = 0 ]; then
    mkdir -p seeded/$name && cp "$src/patch.diff" "$src/demo.py" seeded/$name/
    /venv/bin/python - "$src/meta.json" "seeded/$name/meta.json" "$tests" "$demo_mut" "$demo_clean" <<'PY'
import json,sys
m=json.load(open(sys.argv[1]))
m["confirmed"]={"tests_with_mutant":sys.argv[3],"demo_exit_with_mutant":int(sys.argv[4]),"demo_exit_clean":int(sys.argv[5]),
  "how":"tools/seed.sh confirm: fresh worktree of /repo HEAD, git apply patch.diff, full pytest, demo.py, git checkout, demo.py"}
json.dump(m,open(sys.argv[2],"w"),indent=1)
PY
    echo "KEPT seeded/$name"
  else
    echo "REJECTED $name"
  fi
elif [ "$cmd" = run ]; then
  name="$1"; tier="${2:-quick}"
  pid=$(/venv/bin/python -c "import json;print(json.load(open('seeded/$name/meta.json'))['property'])")
  pid="${3:-$pid}"
  git -C /repo diff --quiet || { echo "/repo is dirty"; exit 2; }
  git -C /repo apply /verif/seeded/$name/patch.diff || exit 2
  cp evidence/$pid.json /tmp/evidence_keep_$pid.json 2>/dev/null
  ./check $pid $tier > /tmp/seedrun_$name.log 2>&1; rc=$?
  git -C /repo checkout -- .
  cp /tmp/evidence_keep_$pid.json evidence/$pid.json 2>/dev/null
  echo "$name ($pid): rc=$rc $(grep -m1 VIOLATION /tmp/seedrun_$name.log) | $(tail -1 /tmp/seedrun_$name.log)"
fi
