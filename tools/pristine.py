"""Pristine reference server: a fresh interpreter that has imported mistune but never converted
anything; every request is served by a forked child, so no reference conversion can be influenced
by any other conversion (not even through module-level state).
Protocol: one JSON request per line on stdin -> one JSON reply per line on stdout."""
import json
import os
import sys

sys.path.insert(0, os.path.dirname(os.path.abspath(__file__)))
import common  # noqa: E402


def main():
    m = common.import_impl()
    import props.C08 as c08
    convs = c08.converters(m)
    # build (not use) one converter of each kind so that lazy plugin imports are done before forking
    for mk in convs.values():
        mk()
    import worker
    worker.fixtures()      # the include fixtures exist before forking: the children share them and the parent removes them
    out = sys.stdout
    for line in sys.stdin:
        req = json.loads(line)
        r, w = os.pipe()
        pid = os.fork()
        if pid == 0:
            os.close(r)
            try:
                md = convs[req["config"]]()
                for p in req.get("use", []):
                    md.use(m.plugins.import_plugin(p))
                res = c08.safe_call(md, req["doc"])
            except BaseException as e:  # noqa
                res = "EXC:%s" % type(e).__name__
            with os.fdopen(w, "w", encoding="utf-8", errors="surrogatepass") as f:
                f.write(json.dumps(res))
            os._exit(0)
        os.close(w)
        with os.fdopen(r, encoding="utf-8", errors="surrogatepass") as f:
            data = f.read()
        os.waitpid(pid, 0)
        out.write((data or json.dumps("EXC:child-died")) + "\n")
        out.flush()


if __name__ == "__main__":
    main()
