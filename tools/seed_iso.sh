#!/bin/bash
# seed_iso.sh [tier] [name-glob]  : like seed_all.sh, but isolated: works on a copy of /verif (with its build output) and a
# scratch worktree of /repo under $SEED_ISO (default /root/seediso), so that /repo and /verif stay usable meanwhile.
# Writes seeded/RESULTS.md of the COPY; copy it back when the run is over.  Removes the worktree at the end.
set -u
tier="${1:-quick}"; glob="${2:-C*_m*}"
iso="${SEED_ISO:-/root/seediso}"
mkdir -p $iso
rsync -a --delete --exclude .git --exclude replays /verif/ $iso/verif/
git -C /repo worktree remove --force $iso/repo 2>/dev/null
git -C /repo worktree add -q --detach $iso/repo HEAD || exit 2
cd $iso/verif
out=seeded/RESULTS.md
echo "# Seeded changes vs checks ($tier tier, $(date -u +%F), /repo $(git -C /repo rev-parse --short HEAD))" > $out
echo >> $out
echo "| seed | property | exit | verdict line |" >> $out
echo "|------|----------|------|--------------|" >> $out
for d in seeded/$glob; do
  name=$(basename $d)
  pid=$(/venv/bin/python -c "import json;print(json.load(open('seeded/$name/meta.json'))['property'])")
  pid="${SEED_PROP:-$pid}"
  ( cd $iso/repo && git checkout -q -- . && git apply $iso/verif/seeded/$name/patch.diff ) || { echo "| $name | $pid | - | PATCH DOES NOT APPLY |" >> $out; continue; }
  VERIF_REPO=$iso/repo ./check $pid $tier > $iso/seedrun_$name.log 2>&1; rc=$?
  ( cd $iso/repo && git checkout -q -- . )
  line="$name ($pid): rc=$rc $(grep -m1 VIOLATION $iso/seedrun_$name.log) / $(tail -1 $iso/seedrun_$name.log)"
  echo "| $name | $pid | $rc | $(echo "$line" | sed 's/|/\//g' | cut -c1-260) |" >> $out
  echo "$line"
done
git -C /repo worktree remove --force $iso/repo
