"""Correspondence of the whole core conversion to HTML (coq/Model/HtmlDoc.v over Doc.v) with create_markdown(escape=, hard_wrap=)."""
import json

import corr_block
from common import run_model


def run(ctx, n):
    m = ctx.mistune
    r = ctx.rng("html-corr")
    PX = ["strikethrough", "mark", "insert", "superscript", "subscript", "url"]
    mds = {(px, e, hw): m.create_markdown(escape=e, hard_wrap=hw, plugins=(PX if px else [])) for px in (False, True) for e in (False, True) for hw in (False, True)}
    cases, want = [], []
    for i in range(n):
        text = corr_block.gen_text(r)
        if any(0xD800 <= ord(c) <= 0xDFFF for c in text):
            continue
        esc = r.random() < 0.7
        hw = r.random() < 0.2
        px = r.random() < 0.4
        if px and r.random() < 0.6:
            text = text + r.choice(["a ~~b~~ ==c== ^^d^^ e^f^ g~h~ https://x.y/z.\n", "> ~~q *r*~~ and http://a.b\n", "- ==m [n](/u)== ^s\\ t^\n"])
        try:
            got = mds[(px, esc, hw)](text)
        except RecursionError:
            continue
        except Exception:  # noqa
            got = ["error", "exception"]
        cases.append(("html", [text, esc, hw, px]))
        want.append(got)
    res = run_model(cases)
    dis = [{"input": c[1][0], "escape": c[1][1], "hard_wrap": c[1][2], "plugins": c[1][3], "model": mv, "impl": iv} for c, mv, iv in zip(cases, res, want) if mv != iv]
    return {"evaluations": len(cases), "disagreements": dis[:20], "samples": [json.dumps(cases[0][1][0])[:200]]}


if __name__ == "__main__":
    import sys
    sys.path.insert(0, "/verif/tools")
    import check
    ctx = check.Ctx("TH", "quick")
    out = run(ctx, int(sys.argv[1]) if len(sys.argv) > 1 else 500)
    print(out["evaluations"], len(out["disagreements"]))
    for d in out["disagreements"][:6]:
        print(json.dumps(d)[:1200])
