"""Canonical documents: random document trees, an independent reference printer producing
unambiguous CommonMark, and the token tree the parser is expected to return (normalised).
Used by C04 (structure recovery), C13 (Markdown renderer round trip)."""

WORDS = ["alpha", "beta", "gamma", "delta", "foo", "bar", "baz", "lorem", "ipsum", "word", "zed", "qux"]
# words around a character that str.splitlines() takes for a line end (CommonMark: only LF, CR LF and CR end a line)
ODD_WORDS = ["se\u2028p", "fo\x0crm", "ne\x85l", "pa\u2029ra", "ve\x0bt", "fi\x1cle"]


def _words(r, lo, hi):
    return " ".join(r.choice(ODD_WORDS) if r.random() < 0.04 else r.choice(WORDS) for _ in range(r.randint(lo, hi)))



# ---------------------------------------------------------------- generation
def gen_inlines(r, depth=0, plain=False, in_link=False, in_em=False, in_strong=False, breaks=True):
    out = []
    n = r.randint(1, 4)
    for i in range(n):
        k = r.random()
        if plain == "words" and k >= 0.45 and depth <= 2:
            # text of plain words, but with inline structure around it: emphasis, strong, code spans, links, images, autolinks
            kind = r.choice(["em", "strong", "code", "link", "link", "image", "autolink", "text"])
            if kind == "em" and not in_em:
                out.append(("em", gen_inlines(r, depth + 1, plain, in_link, True, in_strong, breaks)))
            elif kind == "strong" and not in_strong:
                out.append(("strong", gen_inlines(r, depth + 1, plain, in_link, in_em, True, breaks)))
            elif kind == "code":
                out.append(("code", r.choice(["code", "a b", "two words"])))
            elif kind == "link" and not in_link:
                out.append(("link", gen_inlines(r, depth + 1, plain, True, in_em, in_strong, breaks),
                            r.choice(["/url", "http://e.x/a?b=c", "#frag", "/p/q.html", "https://e.x/M_(l)", "/a(b)c", "/caf\u00e9"]), r.choice([None, None, "title", "two words", "the Joneses'", "'tis"])))
            elif kind == "image" and not in_link:
                out.append(("image", " ".join(r.choice(WORDS) for _ in range(r.randint(1, 2))), r.choice(["/i.png", "http://e.x/i.gif", "/img/p(1).png"]), r.choice([None, "t"])))
            elif kind == "autolink" and not in_link:
                out.append(("autolink", r.choice(["http://e.x/a", "https://e.x/?q=1", "mailto:a@b.co"])))
            else:
                out.append(("text", _words(r, 1, 3)))
            continue
        if plain is True or depth > 2 or k < 0.45:
            out.append(("text", _words(r, 1, 3)))
        elif k < 0.55 and not in_em:
            out.append(("em", gen_inlines(r, depth + 1, plain, in_link, True, in_strong, breaks)))
        elif k < 0.63 and not in_strong:
            out.append(("strong", gen_inlines(r, depth + 1, plain, in_link, in_em, True, breaks)))
        elif k < 0.71:
            # (a delimiter character inside a code span inside emphasis is the known finding C04/codespan-delimiter)
            out.append(("code", r.choice(["code", "a b", "<i>", "a  b", "\\n", "&amp;", "[z]"] + ([] if (in_em or in_strong) else ["x*y", "a_b"]))))
        elif k < 0.79 and not in_link:
            out.append(("link", gen_inlines(r, depth + 1, plain, True, in_em, in_strong, breaks), r.choice(["/url", "http://e.x/a?b=c", "#frag", "/p/q.html", "https://e.x/M_(l)", "/a(b)c", "/caf\u00e9"]),
                        # (titles that begin or end with the characters that delimit a title)
                        r.choice([None, None, "title", "two words", 'he said "hi"', "the Joneses'", "'tis", '"q" and a', "''"])))
        elif k < 0.84 and not in_link:
            out.append(("image", " ".join(r.choice(WORDS) for _ in range(r.randint(1, 2))), r.choice(["/i.png", "http://e.x/i.gif", "/img/p(1).png"]), r.choice([None, "t"])))
        elif k < 0.88 and not in_link:
            out.append(("autolink", r.choice(["http://e.x/a", "https://e.x/?q=1", "mailto:a@b.co"])))
        elif k < 0.91:
            out.append(("html", r.choice(["<b>", "</b>", "<br/>", "<span class=\"k\">", "<!-- c -->", "<abbr title=\"t\">", "</abbr>",
                                          "<aside>", "<area>", "<audio src=\"x\">", "<i>", "<?x y?>", "<em-x>"])))
        elif k < 0.95:
            # (an escaped delimiter inside emphasis is the known finding C04/escaped-star-closes-emphasis)
            # (an escaped backslash in front of the bracket that closes link text is the known finding C04/escaped-backslash-before-closing-bracket)
            out.append(("escape", r.choice(list(("[]<>#!" if (in_em or in_strong) else "*_[]<>#!") + ("" if in_link else "\\")))))
        else:
            out.append(("text", r.choice(WORDS)))
    # emphasis/strong content starts and ends with a word, so that no two delimiter runs touch
    if in_em or in_strong:
        if out[0][0] != "text":
            out.insert(0, ("text", r.choice(WORDS)))
        if out[-1][0] != "text":
            out.append(("text", r.choice(WORDS)))
        if r.random() < 0.12 and not in_link and not plain:
            out.append(("escape", "\\"))      # ... or with an escaped backslash: the closing run follows the pair "\\\\" directly
    # breaks only between two text-ish items
    if breaks and plain is not True and len(out) > 1 and r.random() < 0.3:
        i = r.randint(1, len(out) - 1)
        out.insert(i, (r.choice(["soft", "soft", "hard", "hardbs"]),))
    # raw HTML never starts a line (it would be an HTML block): put a word before it
    fixed = []
    for i, x in enumerate(out):
        if x[0] == "html" and depth == 0 and (i == 0 or out[i - 1][0] in ("soft", "hard", "hardbs")):
            fixed.append(("text", r.choice(WORDS)))
        if x[0] in ("soft", "hard", "hardbs") and depth > 0 and i + 1 < len(out) and out[i + 1][0] == "html":
            fixed.append(x)
            fixed.append(("text", r.choice(WORDS)))
            continue
        fixed.append(x)
    return fixed


def gen_blocks(r, depth=0, plain=False, n=None, in_item=False):
    out = []
    n = n or r.randint(1, 4)
    prev = None
    while len(out) < n:
        k = r.random()
        if depth > 2:
            k *= 0.62
        if k < 0.34:
            b = ("para", gen_inlines(r, 0, plain))
        elif k < 0.46:
            b = ("heading", r.randint(1, 6), gen_inlines(r, 0, plain, breaks=False))
        elif k < 0.54:
            body = "".join(r.choice(["code line\n", "  indented\n", "*not em*\n", "<b>&amp;\n", "\\n\n", "# no\n", "- no\n", "> no\n", "\n", "code  \n", "\n\n", "a\n\n\nb\n", "\n\n\n",
                                      # characters that str.splitlines() takes for line ends and CommonMark does not
                                      "a\u2028b\n", "x\x0cy\n", "v\x0bw\x85z\n", "f\x1cg\u2029h\x1e\n"])
                           for _ in range(r.choice([0, 1, 1, 2, 2, 3, 4])))     # (also an empty block; runs of blank lines inside the code)
            b = ("fenced", r.choice(["```", "~~~", "````"]), r.choice(["", "", "python", "c"]), body)
        elif k < 0.58:
            b = ("hr",)
        elif k < 0.62:
            b = ("htmlblock", r.choice(["<div>\nhello\n</div>", "<!-- comment -->", "<pre>\nkeep\n</pre>", "<table>\n<tr><td>x</td></tr>\n</table>",
                                        "<![CDATA[\nfunction max(a, b) {\n  return a > b ? a : b;\n}\n]]>", "<?php\necho 1 > 0;\n?>", "<!DOCTYPE html>",
                                        "<!--\na > b\n\nstill comment\n-->", "<script>\nif (a > b) {}\n\nx\n</script>", "<style>\n\np {}\n</style>",
                                        "<custom-tag a=\"1\">\ntext\n</custom-tag>", "</div>", "<p>inline *a*</p>"]))
        elif k < 0.66 and prev not in ("para", "list", "indented") and not in_item:
            b = ("indented", "".join(r.choice(["code\n", "  more\n", "*x*\n"]) for _ in range(r.randint(1, 2))))
        elif k < 0.80:
            b = ("quote", gen_blocks(r, depth + 1, plain))
        else:
            ordered = r.random() < 0.4
            mark = r.choice([".", ".", ")"]) if ordered else r.choice(["-", "-", "*", "+"])
            if prev == "list":
                # two lists are adjacent only when the marker character changes (that is what separates them)
                pm = out[-1][5]
                if r.random() < 0.5 or pm == mark:
                    continue
            tight = r.random() < 0.6
            items = []
            for _ in range(r.randint(1, 3)):
                if tight:
                    it = [("para", gen_inlines(r, 0, plain))]
                    if r.random() < 0.25 and depth < 2:
                        sub = gen_blocks(r, depth + 1, plain, 1, True)
                        sub_ordered = r.random() < 0.5
                        it += [("list", sub_ordered, 1, True, [[("para", gen_inlines(r, 0, plain))] for _ in range(r.randint(1, 2))], r.choice([".", ")"]) if sub_ordered else r.choice(["-", "*", "+"]))]
                else:
                    it = gen_blocks(r, depth + 1, plain, r.randint(1, 2), True)
                    if it[0][0] == "indented" or (it[0][0] == "hr" and r.random() < 0.5):
                        it.insert(0, ("para", gen_inlines(r, 0, plain)))       # (half of the items that begin with a thematic break keep it first)
                    # a nested list is the last block of its item (known finding C04/blank-after-nested-list)
                    it = [x for x in it if x[0] != "list"] + [x for x in it if x[0] == "list"][:1]
                items.append(it)
            if mark == "*" and any(it[0][0] == "hr" for it in items):
                mark = "+"   # '* ***' is a thematic break, not an item holding one
                if prev == "list" and out[-1][5] == mark:
                    continue
            b = ("list", ordered, r.choice([1, 1, 2, 7, 10, 8, 9, 98, 99, 0, 0, 999999997]) if ordered else 1, tight, items, mark)
        if b[0] == "indented" and prev in ("para",):
            continue
        out.append(b)
        prev = b[0]
    return out


# ---------------------------------------------------------------- printing
def dest(url):
    """a destination that holds parentheses is written in the pointy-bracket form"""
    return ("<" + url + ">") if ("(" in url or ")" in url) else url


def _title(t):
    return ' "%s"' % t.replace("\\", "\\\\").replace('"', '\\"') if t else ""


def print_inlines(ins):
    out = []
    for x in ins:
        t = x[0]
        if t == "text":
            out.append(x[1])
        elif t == "em":
            out.append("*" + print_inlines(x[1]) + "*")
        elif t == "strong":
            out.append("**" + print_inlines(x[1]) + "**")
        elif t == "code":
            c = x[1]
            fence = "``" if "`" in c else "`"
            out.append(fence + c + fence)
        elif t == "link":
            out.append("[" + print_inlines(x[1]) + "](" + dest(x[2]) + _title(x[3]) + ")")
        elif t == "image":
            out.append("![" + x[1] + "](" + dest(x[2]) + _title(x[3]) + ")")
        elif t == "autolink":
            u = x[1]
            out.append("<" + (u[7:] if u.startswith("mailto:") else u) + ">")
        elif t == "html":
            out.append(x[1])
        elif t == "escape":
            out.append("\\" + x[1])
        elif t == "soft":
            out.append("\n")
        elif t == "hard":
            out.append("  \n")
        elif t == "hardbs":
            out.append("\\\n")
    # items are separated by single spaces, except around breaks
    s = ""
    for i, piece in enumerate(out):
        if i and not piece.endswith("\n") and not s.endswith("\n"):
            s += " "
        s += piece
    return s


def indent(text, first, rest):
    lines = text.split("\n")
    out = []
    for i, l in enumerate(lines):
        if i == 0:
            out.append(first + l)
        else:
            out.append((rest + l) if l else (rest.rstrip() if rest.strip() else ""))
    return "\n".join(out)


COMPACT = True
COMPACT_PAIRS = {("quote", "list"), ("quote", "hr"), ("quote", "fenced")}


def print_blocks(bs, tight=False, in_item=False):
    parts = []
    for b in bs:
        t = b[0]
        if t == "para":
            parts.append(print_inlines(b[1]))
        elif t == "heading":
            parts.append("#" * b[1] + " " + print_inlines(b[2]).replace("\n", " "))
        elif t == "fenced":
            parts.append(b[1] + b[2] + "\n" + b[3] + b[1])
        elif t == "indented":
            parts.append("\n".join("    " + l for l in b[1].rstrip("\n").split("\n")))
        elif t == "hr":
            # every spelling of a thematic break; the hyphen and underscore forms only after a blank line (a hyphen line below a
            # paragraph is a setext underline) and never as the first block of a container (after a bullet it would join the marker)
            styles = ["***", "---", "___", "* * *", "- - -", "-----", "_ _ _", "**  **"]
            if parts and not tight:
                parts.append(styles[(len(parts) * 3 + len(bs) + len(parts[-1])) % len(styles)])
            else:
                # first in its container (possibly right behind a list marker): the star and underscore spellings only
                _HR[0] += 1
                parts.append(["***", "___", "_ _ _", "* * *", "_____"][_HR[0] % 5])
        elif t == "htmlblock":
            parts.append(b[1])
        elif t == "quote":
            inner = print_blocks(b[1])
            parts.append("\n".join((">" + (" " + l if l else "")) for l in inner.split("\n")))
        elif t == "list":
            _, ordered, start, ltight, items, mark = b
            lines = []
            for i, it in enumerate(items):
                marker = ("%d%s" % (start + i, mark)) if ordered else mark
                pad = marker + " "
                body = print_blocks(it, ltight, True)
                lines.append(indent(body, pad, " " * len(pad)))
            parts.append(("\n" if ltight else "\n\n").join(lines))
    if tight:
        return "\n".join(parts)
    # blocks are separated by a blank line; where CommonMark lets the next block interrupt the previous one, every third such
    # pair is written without the blank line: a list, a thematic break or a fenced block directly below a quote (not inside list
    # items, where a missing blank line would also change the looseness of the list)
    out = ""
    for i, part in enumerate(parts):
        if i:
            a, b = bs[i - 1][0], bs[i][0]
            close = COMPACT and not in_item and (a, b) in COMPACT_PAIRS and (len(parts[i - 1]) + len(part)) % 3 == 0 and not part.startswith(("---", "- - -", "-----"))
            if close and a == "list" and (bs[i - 1][3] is False or part.startswith(" ")):
                close = False        # (below a loose list the block would belong to the last item)
            out += "\n" if close else "\n\n"
        out += part
    return out


_HR = [0]        # (the spelling of a thematic break that stands first in its container rotates within one document)


def print_doc(bs):
    _HR[0] = len(bs)
    return print_blocks(bs) + "\n"


# ---------------------------------------------------------------- expected (normalised) tokens
def merge_text(toks):
    out = []
    for t in toks:
        if t["type"] == "text" and out and out[-1]["type"] == "text":
            out[-1] = {"type": "text", "raw": out[-1]["raw"] + t["raw"]}
        else:
            out.append(t)
    return out


def codespan_text(c):
    c = c.replace("\n", " ")
    if c.strip() and c.startswith(" ") and c.endswith(" "):
        c = c[1:-1]
    return c


def exp_inlines(ins, escape_url):
    out = []
    prev_break = True
    for i, x in enumerate(ins):
        t = x[0]
        brk = t in ("soft", "hard", "hardbs")
        if i and not brk and not prev_break:
            out.append({"type": "text", "raw": " "})
        if t == "text":
            out.append({"type": "text", "raw": x[1]})
        elif t == "em":
            out.append({"type": "emphasis", "children": exp_inlines(x[1], escape_url)})
        elif t == "strong":
            out.append({"type": "strong", "children": exp_inlines(x[1], escape_url)})
        elif t == "code":
            out.append({"type": "codespan", "raw": codespan_text(x[1])})
        elif t == "link":
            a = {"url": escape_url(x[2])}
            if x[3]:
                a["title"] = x[3]
            out.append({"type": "link", "children": exp_inlines(x[1], escape_url), "attrs": a})
        elif t == "image":
            a = {"url": escape_url(x[2])}
            if x[3]:
                a["title"] = x[3]
            out.append({"type": "image", "children": [{"type": "text", "raw": x[1]}], "attrs": a})
        elif t == "autolink":
            u = x[1]
            out.append({"type": "link", "children": [{"type": "text", "raw": u[7:] if u.startswith("mailto:") else u}], "attrs": {"url": escape_url(u)}})
        elif t == "html":
            out.append({"type": "inline_html", "raw": x[1]})
        elif t == "escape":
            out.append({"type": "text", "raw": x[1]})
        elif t == "soft":
            out.append({"type": "softbreak"})
        else:
            out.append({"type": "linebreak"})
        prev_break = brk
    return merge_text(out)


def exp_blocks(bs, escape_url, tight=False):
    out = []
    for b in bs:
        t = b[0]
        if t == "para":
            out.append({"type": "block_text" if tight else "paragraph", "children": exp_inlines(b[1], escape_url)})
        elif t == "heading":
            flat = [x for x in b[2] if x[0] not in ("soft", "hard", "hardbs")]
            out.append({"type": "heading", "children": exp_inlines(flat, escape_url), "attrs": {"level": b[1]}})
        elif t == "fenced":
            tok = {"type": "block_code", "raw": b[3]}
            if b[2]:
                tok["attrs"] = {"info": b[2]}
            out.append(tok)
        elif t == "indented":
            out.append({"type": "block_code", "raw": b[1].rstrip("\n")})
        elif t == "hr":
            out.append({"type": "thematic_break"})
        elif t == "htmlblock":
            out.append({"type": "block_html", "raw": b[1] + "\n"})
        elif t == "quote":
            out.append({"type": "block_quote", "children": exp_blocks(b[1], escape_url)})
        elif t == "list":
            _, ordered, start, ltight, items, _mark = b
            # without any blank line (one item holding one block) the list is tight whatever was intended
            ltight = ltight or (len(items) == 1 and len(items[0]) == 1)
            attrs = {"ordered": ordered}
            if ordered and start != 1:
                attrs["start"] = start
            out.append({"type": "list", "attrs": attrs, "tight": ltight,
                        "children": [{"type": "list_item", "children": exp_blocks(it, escape_url, ltight)} for it in items]})
    return out


def normalise(tokens, indent_code_newline=False, hits=None):
    """actual tokens -> the same normal form: keep type, raw, children, the attrs the property names, tight;
    drop blank_line tokens and presentation keys.  indent_code_newline: give indented code the trailing
    newline that re-emitting it as a fenced block adds (known finding C13/indented-code-gains-newline)"""
    out = []
    for t in tokens:
        ty = t["type"]
        if ty == "blank_line":
            continue
        n = {"type": ty}
        if "raw" in t:
            n["raw"] = t["raw"]
            if indent_code_newline and ty == "block_code" and t.get("style") == "indent":
                n["raw"] = t["raw"] + "\n"
                if hits is not None:
                    hits.append(t["raw"])
        if "children" in t:
            n["children"] = normalise(t["children"], indent_code_newline, hits)
            if ty in ("paragraph", "block_text", "heading", "emphasis", "strong", "link", "image"):
                n["children"] = merge_text(n["children"])
        a = t.get("attrs") or {}
        keep = {}
        for k in ("level", "ordered", "start", "url", "title", "info"):
            if k in a and a[k] is not None:
                keep[k] = a[k]
        if keep:
            n["attrs"] = keep
        if ty == "list":
            n["tight"] = t.get("tight")
        out.append(n)
    return out


def first_diff(a, b, path=""):
    """path of the first difference between two normalised token lists"""
    if type(a) != type(b):
        return path + " (type)"
    if isinstance(a, list):
        for i, (x, y) in enumerate(zip(a, b)):
            d = first_diff(x, y, "%s/%d" % (path, i))
            if d:
                return d
        if len(a) != len(b):
            return "%s (length %d vs %d)" % (path, len(a), len(b))
        return None
    if isinstance(a, dict):
        for k in sorted(set(a) | set(b)):
            if k not in a or k not in b:
                return "%s.%s (missing)" % (path, k)
            d = first_diff(a[k], b[k], "%s.%s" % (path, k))
            if d:
                return d
        return None
    return None if a == b else "%s: %r vs %r" % (path, a, b)
