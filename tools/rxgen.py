"""Regex -> Coq `rx` terms, through CPython's own parser (re._parser).  Fail-closed:
anything outside the modelled subset raises Unsupported."""
import re
import re._constants as C
import re._parser as P


class Unsupported(Exception):
    pass


MAXREPEAT = C.MAXREPEAT

CATS = {
    C.CATEGORY_SPACE: "CatSpace", C.CATEGORY_NOT_SPACE: "CatNotSpace",
    C.CATEGORY_DIGIT: "CatDigit", C.CATEGORY_NOT_DIGIT: "CatNotDigit",
    C.CATEGORY_WORD: "CatWord", C.CATEGORY_NOT_WORD: "CatNotWord",
}


def _seq(items):
    if not items:
        return "REps"
    out = items[-1]
    for it in reversed(items[:-1]):
        out = "(RSeq %s %s)" % (it, out)
    return out


def _alt(items):
    if not items:
        return "RFail"
    out = items[-1]
    for it in reversed(items[:-1]):
        out = "(RAlt %s %s)" % (it, out)
    return out


def _node(op, av, flags, info):
    M = bool(flags & re.M)
    S = bool(flags & re.S)
    if op is C.LITERAL:
        return "(RLit %d)" % av
    if op is C.NOT_LITERAL:
        return "(RNotLit %d)" % av
    if op is C.ANY:
        return "(RAny %s)" % ("true" if S else "false")
    if op is C.IN:
        neg = False
        items = []
        for o, a in av:
            if o is C.NEGATE:
                neg = True
            elif o is C.LITERAL:
                items.append("CLit %d" % a)
            elif o is C.RANGE:
                items.append("CRange %d %d" % (a[0], a[1]))
            elif o is C.CATEGORY:
                if a not in CATS:
                    raise Unsupported("category %r" % (a,))
                items.append("CCat %s" % CATS[a])
            else:
                raise Unsupported("class item %r" % (o,))
        return "(RIn %s [%s])" % ("true" if neg else "false", "; ".join(items))
    if op is C.BRANCH:
        return _alt([_sub(b, flags, info) for b in av[1]])
    if op in (C.MAX_REPEAT, C.MIN_REPEAT):
        lo, hi, sub = av
        info["repeats"] += 1
        return "(RRep %s %d%%nat %s %s)" % ("true" if op is C.MAX_REPEAT else "false", lo,
                                           "None" if hi == MAXREPEAT else "(Some %d%%nat)" % hi, _sub(sub, flags, info))
    if op is C.SUBPATTERN:
        group, add_flags, del_flags, sub = av
        if add_flags or del_flags:
            raise Unsupported("inline flags")
        body = _sub(sub, flags, info)
        if group is None:
            return body
        info["groups"] = max(info["groups"], group)
        return "(RGroup %d%%nat %s)" % (group, body)
    if op is C.GROUPREF:
        info["backrefs"] += 1
        return "(RBackref %d%%nat)" % av
    if op in (C.ASSERT, C.ASSERT_NOT):
        direction, sub = av
        info["looks"] += 1
        return "(RLook %s %s %s)" % ("true" if direction == 1 else "false", "true" if op is C.ASSERT_NOT else "false",
                                     _sub(sub, flags, info))
    if op is C.AT:
        table = {
            C.AT_BEGINNING: "AtBeginningLine" if M else "AtBeginning",
            C.AT_BEGINNING_STRING: "AtBeginning",
            C.AT_END: "AtEndLine" if M else "AtEnd",
            C.AT_END_STRING: "AtEndString",
            C.AT_BOUNDARY: "AtBoundary",
            C.AT_NON_BOUNDARY: "AtNonBoundary",
        }
        if av not in table:
            raise Unsupported("at code %r" % (av,))
        return "(RAt %s)" % table[av]
    raise Unsupported("opcode %r" % (op,))


def _sub(sp, flags, info):
    return _seq([_node(op, av, flags, info) for op, av in sp])


def to_rx(pattern, flags=0):
    """returns (coq term, groupindex dict, number of groups, info)"""
    if isinstance(pattern, re.Pattern):
        flags = pattern.flags
        pattern = pattern.pattern
    parsed = P.parse(pattern, flags)
    eff = parsed.state.flags
    if eff & (re.I | re.X | re.A | re.L):
        raise Unsupported("flags %r" % re.RegexFlag(eff))
    info = {"repeats": 0, "groups": 0, "backrefs": 0, "looks": 0}
    term = _sub(parsed, eff, info)
    return term, dict(parsed.state.groupdict), parsed.state.groups - 1, info


def unicode_ranges():
    """ranges of code points matched by \\s, \\d, \\w in str patterns of the running interpreter"""
    out = {}
    for name, pat in (("space", r"\s"), ("digit", r"\d"), ("word", r"\w")):
        rx = re.compile(pat)
        ranges = []
        start = None
        for i in range(0x110000):
            ok = rx.match(chr(i)) is not None
            if ok and start is None:
                start = i
            elif not ok and start is not None:
                ranges.append((start, i - 1))
                start = None
        if start is not None:
            ranges.append((start, 0x10FFFF))
        out[name] = ranges
    return out


def collect_patterns(mistune):
    """every regex the package defines: (name, pattern string, flags)"""
    import importlib
    import pkgutil
    pats = []
    seen = set()

    def add(name, pattern, flags, force=False):
        key = (pattern, flags)
        if key in seen and not force:
            return
        seen.add(key)
        pats.append((name, pattern, flags))
    mods = [mistune] + [importlib.import_module(m.name) for m in pkgutil.walk_packages(mistune.__path__, "mistune.")
                        if not m.name.endswith("__main__")]
    for mod in mods:
        short = mod.__name__.replace("mistune.", "").replace("mistune", "init").replace(".", "_")
        for k, v in sorted(vars(mod).items()):
            if isinstance(v, re.Pattern):
                add("%s__%s" % (short, k.strip("_")), v.pattern, v.flags & (re.M | re.S))
            elif isinstance(v, dict) and v and all(isinstance(x, re.Pattern) for x in v.values()):
                for kk, vv in v.items():
                    nm = "".join(ch if ch.isalnum() else {"*": "s", "_": "u"}.get(ch, "x") for ch in kk)
                    add("%s__%s_%s" % (short, k.strip("_"), nm), vv.pattern, vv.flags & (re.M | re.S))
            elif isinstance(v, str) and (k.endswith("_PATTERN") or k in ("REF_FOOTNOTE", "INLINE_FOOTNOTE", "REF_ABBR", "PARAGRAPH")):
                inline = any(t in k for t in ("INLINE", "SUPERSCRIPT", "SUBSCRIPT", "URL_LINK", "RUBY"))
                add("%s__%s" % (short, k.strip("_")), v, 0 if inline else re.M)
    from mistune.block_parser import BlockParser
    from mistune.inline_parser import InlineParser
    for k, v in BlockParser.SPECIFICATION.items():
        add("block__%s" % k, v, re.M, True)
    add("block__BLANK_LINE", BlockParser.BLANK_LINE.pattern, re.M, True)
    for k, v in InlineParser.SPECIFICATION.items():
        add("inline__%s" % k, v, 0, True)
    add("inline__HARD_LINEBREAK", InlineParser.HARD_LINEBREAK, 0, True)
    return pats
