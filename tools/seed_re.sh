#!/bin/bash
# seed_re.sh <name>... : run the quick check of each seed's property against it in an isolated copy of the current /verif
cd /verif
for name in "$@"; do
  SEED_ISO=/root/st_$name tools/seed_iso.sh quick "$name" 2>&1 | tail -1
  cp /root/st_$name/seedrun_$name.log /root/logs/seedrun_$name.log 2>/dev/null
  rm -rf /root/st_$name
done
