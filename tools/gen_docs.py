"""Seeded generators of Markdown documents (structured, mostly valid) and of noise.

Everything is derived from the random.Random passed in, so a (seed, tag, index) triple
replays exactly.  Used by the correspondence checks and by the oracle searches.
"""
import string

WORDS = ["alpha", "beta", "gamma", "delta", "foo", "bar", "baz", "Lorem", "ipsum", "x", "y1", "Zed",
         "HTML", "a1b2", "word", "code", "http", "www", "em", "q",
         # East Asian wide and full-width words (no spaces between words in such text: a line may be wrapped between two of them)
         "\u6f22\u5b57", "\u304b\u306a\u3092", "\uff57\uff49\uff44\uff45", "\u3002"]

UNI = ["\u00a0", "\u2003", "\u00e9", "\u00df", "\u03a3", "\u03c2", "\u0130", "\u4e2d", "\U0001f600", "\u0301",
       "\x0b", "\x0c", "\x1c", "\x85", "\u2028"]

PUNCT = list("*_`[]()<>!#-+=~^$|:\\\"'&;.@/{}%")

ALL_PLUGINS = ["strikethrough", "mark", "insert", "superscript", "subscript", "footnotes", "table", "url",
               "abbr", "def_list", "math", "ruby", "task_lists", "spoiler"]


def word(r):
    w = r.choice(WORDS)
    if r.random() < 0.05:
        w += r.choice(UNI)
    return w


def words(r, lo=1, hi=5):
    return " ".join(word(r) for _ in range(r.randint(lo, hi)))


def inline(r, depth=0, plugins=()):
    """one inline fragment"""
    k = r.random()
    if depth > 2 or k < 0.35:
        return words(r, 1, 4)
    if k < 0.42:
        return "*" + inline(r, depth + 1, plugins) + "*"
    if k < 0.48:
        return "**" + inline(r, depth + 1, plugins) + "**"
    if k < 0.52:
        return "_" + inline(r, depth + 1, plugins) + "_"
    if k < 0.58:
        return "`" + r.choice(["code", "a b", " x ", "a*b*", "<i>", "&amp;", "``", "\\"]) + "`"
    if k < 0.64:
        return "[" + inline(r, depth + 1, plugins) + "](" + r.choice(["/url", "http://a.b/c?d=e&f", "<a b>", "#x", "u 'T'", 'u "t&quot;"', "javascript:x"]) + ")"
    if k < 0.68:
        return "![" + words(r, 1, 2) + "](" + r.choice(["/img.png", "i.gif 'title'"]) + ")"
    if k < 0.72:
        return "[" + words(r, 1, 2) + "][" + r.choice(["ref", "REF", "r  2", "nope", ""]) + "]"
    if k < 0.735:
        # links whose text is (almost) their destination, destinations that need percent-encoding or hold parentheses
        return r.choice(["<https://example.com/caf\u00e9/r\u00e9sum\u00e9>", "<o'brien@example.com>", "[my file.txt](<my file.txt>)", "[\u00fcber](\u00fcber)", "[foo](foo)",
                         "[http://a.b](http://a.b)", "[a@b.c](mailto:a@b.c)", "[x](x \"t\")", "[Wiki](https://e.x/M_(l))", "[w](<https://e.x/M_(l)>)",
                         "![p](/img/p(1).png)", "[w](</a(b)c> 't')", "[a b](<a b>)", "<HTTP://EXAMPLE.COM/Q>", "[w](/p&copy;q)"])
    if k < 0.75:
        return "<" + r.choice(["http://x.y/z", "mailto:a@b.c", "a@b.co", "ftp://q"]) + ">"
    if k < 0.79:
        return r.choice(["<b>", "</b>", "<br/>", "<a href='x'>", "</a>", "<!-- c -->", "<?p?>", "<i class=\"k\">"])
    if k < 0.83:
        return r.choice(["&amp;", "&lt;", "&#35;", "&#x41;", "&copy;", "&nosuch;", "&", "&amp", "\\&copy;", "\\&#35;", "\\&lt;b\\&gt;", "&ltx;", "&quot",
                         # numeric references at and beyond every limit (code point range, surrogates, NUL, the C int range)
                         "&#x80000000;", "&#xFFFFFFFFFF;", "&#9999999;", "&#x110000;", "&#xD800;", "&#0;", "&#x10FFFF;",
                         "[a](/p&#x80000000;q)", "[a](/p 't&#xFFFFFFFF;')", "<http://e.x/&#x100000000;>", "![i](&#xD800;.png)"])
    if k < 0.87:
        return "\\" + r.choice(PUNCT)
    if k < 0.90:
        return r.choice(PUNCT) + r.choice(PUNCT)
    if plugins and k < 0.97:
        p = r.choice(list(plugins))
        w = words(r, 1, 2)
        return {
            "strikethrough": "~~" + w + "~~", "mark": "==" + w + "==", "insert": "^^" + w + "^^",
            "superscript": "^" + word(r) + "^", "subscript": "~" + word(r) + "~",
            "footnotes": "[^" + r.choice(["1", "n", "Note", "missing"]) + "]",
            "url": r.choice(["https://example.com/a?b=c", "http://x.y", "HTTP://EXAMPLE.COM/q", "Https://x.y/z", "see hTTp://a.b now"]),
            "abbr": r.choice(["HTML", "W3C"]), "math": "$" + r.choice(["a+b", "x<y", "\\frac"]) + "$",
            "ruby": r.choice(["[" + word(r) + "(" + word(r) + ")]"] * 6 + ["[a(b(c)]", "[a((b)]", "[f(g(x))]", "[a(b c)]", "[a(b)c(d)]", "[a()]", "[(b)]", "[a(b]", "[a(b))]"]) + r.choice(["", "", "", "[ref]", "[nope]", "(/u)", "[" + word(r) + "(" + word(r) + ")]", "[]", "("]), "spoiler": ">!" + w + "!<",
            "table": "a|b", "def_list": w, "task_lists": "[x]",
        }.get(p, w)
    return words(r, 1, 3)


def line(r, plugins=()):
    return " ".join(inline(r, 0, plugins) for _ in range(r.randint(1, 4)))


def paragraph(r, plugins=()):
    n = r.randint(1, 3)
    ls = []
    for _ in range(n):
        l = line(r, plugins)
        if r.random() < 0.1:
            l += "  "
        elif r.random() < 0.05:
            l += "\\"
        ls.append(l)
    return "\n".join(ls) + "\n"


def indent(text, prefix, first=None):
    out = []
    for i, l in enumerate(text.split("\n")):
        if l == "" and i == len(text.split("\n")) - 1:
            out.append("")
        elif i == 0 and first is not None:
            out.append(first + l)
        else:
            out.append((prefix + l) if l else l)
    return "\n".join(out)


def block(r, depth=0, plugins=(), directives=False):
    k = r.random()
    if depth > 3:
        k = k * 0.3
    if k < 0.30:
        return paragraph(r, plugins)
    if k < 0.38:
        return "#" * r.randint(1, 7) + r.choice([" ", "  ", "\t", ""]) + line(r, plugins) + r.choice(["", " #", " ##  ", "#"]) + "\n"
    if k < 0.42:
        return line(r, plugins) + "\n" + r.choice(["===", "---", "=", "-", "--- "]) + "\n"
    if k < 0.48:
        f = r.choice(["```", "~~~", "````", "~~~~"])
        body = "".join(r.choice(["code line\n", "  indented\n", "\n", "*not em*\n", "&amp; <b>\n", "``` x\n", "~~\n", "\\n\n", "\tTab\n"]) for _ in range(r.randint(0, 4)))
        return r.choice(["", " ", "  ", "   "]) + f + r.choice(["", "python", " py extra", "a&amp;b", "", "python", "&#32;", " &#9; ", "&#x20;py", "py&#10;x", "\\ ", "&nbsp;", "&#12288;"]) + "\n" + body + (f + "\n" if r.random() < 0.85 else "")
    if k < 0.52:
        return "".join("    " + r.choice(["code", "  more", "*x*", "<y>"]) + "\n" for _ in range(r.randint(1, 3)))
    if k < 0.56:
        return r.choice(["***", "---", "___", "* * *", " - - -", "_ _ _ _"]) + "\n"
    if k < 0.66:
        inner = "".join(block(r, depth + 1, plugins, directives) + r.choice(["", "\n"]) for _ in range(r.randint(1, 2)))
        q = indent(inner, r.choice(["> ", ">", " > "]))
        if r.random() < 0.2:
            q += "lazy " + words(r) + "\n"
        elif r.random() < 0.15:
            # lazy continuation: only the first line keeps its marker
            ls = q.split("\n")
            q = "\n".join([ls[0]] + [l.lstrip("> ") if l.strip("> ") else l for l in ls[1:]])
        elif r.random() < 0.1:
            q = r.choice(["> a | b\n--- | ---\n1 | 2\n", "> term\n: def\n", "> para\n- item\n", "> x\n```\ncode\n```\n",
                          "> h\n===\n", "> a\n    b\n"])
        return q
    if k < 0.80:
        ordered = r.random() < 0.4
        items = []
        start = r.choice([1, 1, 2, 7, 0, 10, 123456789])
        loose = r.random() < 0.3
        delim = r.choice([".", ")"])
        bullet = r.choice(["-", "-", "*", "+"])
        for i in range(r.randint(1, 3)):
            marker = ("%d%s" % (start + i, delim)) if ordered else bullet
            body = "".join(block(r, depth + 1, plugins, directives) + ("\n" if loose else "") for _ in range(r.randint(1, 2)))
            items.append((marker, body))
        out = ""
        for marker, body in items:
            pad = marker + " " * r.randint(1, 2)
            out += indent(body, " " * len(pad), first=pad)
        return out
    if k < 0.84:
        return r.choice(["<div>\nhello *x*\n</div>\n", "<!-- comment\nmore -->\n", "<pre>\n\n*keep*\n</pre>\n", "<?php\n?>\n",
                         "<custom-tag a=\"1\">\n", "</div>\n", "<script>\nalert(1)\n</script>\n", "<![CDATA[\nx\n]]>\n", "<!DOCTYPE html>\n",
                         "<p>inline *a*</p>\n", "<table><tr><td>\n\ncell\n\n</td></tr></table>\n"])
    if k < 0.89:
        return "[" + r.choice(["ref", "Ref", "r 2", "R  2", "foo"]) + "]: " + r.choice(["/url", "<u v>", "http://e.x/?a=b"]) + r.choice(["", " 'title'", ' "T t"', "\n  'next line'", " (paren)"]) + "\n"
    if k < 0.92:
        return "\n"
    if not plugins and not directives:
        return paragraph(r, plugins)
    if directives and k < 0.96:
        return r.choice([
            "```{note} Title\n:class: c1\n\nbody *text*\n```\n",
            "```{toc}\n:max-level: 2\n```\n", "```{toc} Contents\n:min-level: 2\n:max-level: 4\n```\n",
            "```{image} a.png\n:alt: A\n:width: 100\n:align: left\n```\n",
            "```{figure} a.png\n:figwidth: 10\n\ncaption *c*\n\nlegend\n```\n",
            "```{warning}\ncontent\n```\n", "```{unknown} x\n```\n", "```{include} nofile.md\n```\n",
            "````{note}\n```{tip}\ninner\n```\n````\n",
        ])
    p = r.choice(list(plugins)) if plugins else None
    if p == "table":
        return r.choice(["| a | b |\n|---|:-:|\n| 1 | 2 |\n| *3* | `4` |\n", "a | b\n--|--:\n1 | 2\n", "| h |\n|---|\n| c | extra |\n",
                         "| a | b |\n|---|---|\n| \\| | 2 |\n"])
    if p == "footnotes":
        return "[^" + r.choice(["1", "n", "Note"]) + "]: " + words(r) + r.choice(["", " *em*", " `code`", " http", " src/", " [l](/u)", " <b>"]) + \
            r.choice(["\n", "\n   more " + words(r) + "\n", "\n\n   second para " + r.choice(["x", "*e*", "p"]) + "\n"])
    if p == "def_list":
        return words(r, 1, 2) + "\n: " + words(r) + r.choice(["\n", "\n: second\n", "\n\n  more\n"])
    if p == "math":
        return "$$\n" + r.choice(["a+b", "x<y&z", "\\alpha"]) + "\n$$\n"
    if p == "abbr":
        return "*[" + r.choice(["HTML", "W3C"]) + "]: " + words(r) + "\n"
    if p == "task_lists":
        return "- [" + r.choice([" ", "x", "X"]) + "] " + words(r) + "\n- [ ] " + words(r) + "\n"
    if p == "spoiler":
        return ">! " + words(r) + "\n>! " + words(r) + "\n"
    return paragraph(r, plugins)


def doc(r, plugins=(), directives=False, max_blocks=6):
    n = r.randint(1, max_blocks)
    parts = []
    for _ in range(n):
        parts.append(block(r, 0, plugins, directives))
        if r.random() < 0.6:
            parts.append("\n")
    return "".join(parts)


NOISE_ALPHABET = list("ab1 \n\t*_`[]()<>!#-+=~^$|:\\\"'&;.@/>") + ["\n", "\n", " ", "    ", "> ", "- ", "1. ", "```", "~~~", "***", "[^a]", "]: ", "](", "<a>", "-->", "<!--", "&amp;", "\\", "$$", "|-|", ": "]


def noise(r, lo=1, hi=60, uni=True):
    n = r.randint(lo, hi)
    out = []
    for _ in range(n):
        if uni and r.random() < 0.03:
            out.append(r.choice(UNI))
        else:
            out.append(r.choice(NOISE_ALPHABET))
    return "".join(out)


def mutate(r, s):
    """small random edit of a document"""
    if not s:
        return noise(r, 1, 5)
    k = r.random()
    i = r.randrange(len(s))
    if k < 0.3:
        return s[:i] + s[i + 1:]
    if k < 0.6:
        return s[:i] + r.choice(NOISE_ALPHABET) + s[i:]
    if k < 0.8:
        j = r.randrange(len(s))
        a, b = min(i, j), max(i, j)
        return s[:a] + s[b:]
    return s[:i] + s[i:i + 10] + s[i:]


def mixed_stream(r, n, plugins=(), directives=False):
    """n documents: ~70% structured, ~15% mutated structured, ~15% noise"""
    for _ in range(n):
        k = r.random()
        if k < 0.7:
            yield doc(r, plugins, directives)
        elif k < 0.85:
            d = doc(r, plugins, directives)
            for _ in range(r.randint(1, 3)):
                d = mutate(r, d)
            yield d
        else:
            yield noise(r)


# blocks that interrupt / lazily continue one another: the places where rule priority matters
HEADS = ["> quote", "- item", "1. one", "para text", "# head", "term", "| a | b |", "a | b", "    code", "<div>", "[^n]: note", "*[AB]: abbr",
         "```", "$$", ">! spoil", ".. note:: T", ":::{note} T", "- [ ] task", "***", "[r]: /u"]
TAILS = ["--- | ---", "|---|---|", ": def", "===", "---", "- next", "> more", "    indented", "lazy words", "```", "$$", "1 | 2", "| 1 | 2 |",
         "   :class: c", ":::", "", "[^n]", "   more note", "![i](u)", "2. two", "<b>x</b>"]


def interaction_doc(r, n=None):
    """interrupt / lazy-continuation fragments; one in five is an edge document (edge_doc: wide white space at the borders of
    block text, degenerate definition keys; tab_doc: tabs and mixed indentation after container markers)"""
    if n is None and r.random() < 0.2:
        return edge_doc(r) if r.random() < 0.6 else tab_doc(r)
    out = []
    for _ in range(n or r.randint(1, 3)):
        out.append(r.choice(HEADS))
        for _ in range(r.randint(1, 3)):
            out.append(r.choice(TAILS))
        if r.random() < 0.5:
            out.append("")
    return "\n".join(out) + "\n"


SHOWCASE_PLUGINS = {"footnotes": ["footnotes"], "abbr": ["abbr"], "table": ["table"], "def_list": ["def_list"], "task_lists": ["task_lists"], "math": ["math"],
                    "spoiler": ["spoiler"], "ruby": ["ruby"], "formatting": ["strikethrough", "mark", "insert", "superscript", "subscript"], "url": ["url"], "refs": [],
                    "specials": ["strikethrough", "mark", "insert", "superscript", "subscript", "footnotes", "abbr", "table", "def_list", "task_lists", "math", "spoiler", "ruby", "url"]}


def showcase_for(r):
    """(plugins, document): a showcase document together with the plugins whose constructs it uses"""
    k = r.choice(sorted(SHOWCASE_PLUGINS))
    return list(SHOWCASE_PLUGINS[k]), showcase(r, k)


def abbr_showcase(r):
    """abbreviations with one-word and multi-word keys, keys that are prefixes of each other or hold stop characters; uses plain,
    next to punctuation, and wrapped over two lines at a space of the key"""
    keys = r.sample(["HTML", "W3C", "World Wide Web", "AB", "AB_C", "a b", "Mr. X", "C*", "x y z", "ML"], r.randint(1, 4))
    uses = []
    for _ in range(r.randint(1, 5)):
        u = r.choice(keys)
        if " " in u and r.random() < 0.6:
            u = u.replace(" ", r.choice(["\n", "  \n", " \n", "\\\n"]), 1)
        uses.append(r.choice(["", "(", "*", "x"]) + u + r.choice(["", ".", "s", "*", " "]))
    body = " ".join(words(r, 0, 2) + " " + u for u in uses)
    defs = "".join("*[%s]: %s\n" % (k, r.choice(["T", "Hyper <Text> \"q\"", "a & b", ""])) for k in keys)
    return (body + "\n\n" + defs) if r.random() < 0.7 else (defs + "\n" + body + "\n")


SPECIALS = ["<b>", "</td>", "a&b", "AT&T", "\"q\"", "<i x=\"y\">", "&amp;", "'", "<script>", "a<b", "x>y", "&#60;", "<!--", "]]>", "<a href=\"/z\">"]


def special_slots(r):
    """every slot of every plugin syntax (and of the core inline syntax) filled with HTML-special characters: ruby bases and
    readings, struck / marked / inserted / super- and subscript text, spoilers, math, footnote keys and texts, abbreviation keys
    and titles, definition-list terms, table cells, task-list text, URLs, link text / destination / title, code info strings;
    also near misses of each syntax (the special character where the syntax allows only word characters)"""
    s = lambda: r.choice(SPECIALS)  # noqa
    forms = ["[%s(かな)]" % s(), "[漢字(%s)]" % s(), "[%s(r)](/u)" % s(), "[k(r)%s(q)]" % s(), "~~%s~~" % s(), "==%s==" % s(), "^^%s^^" % s(), "x^%s^" % s(), "H~%s~O" % s(),
             ">!%s!<" % s(), "$%s$" % s(), "$$\n%s\n$$" % s(), "t[^%s]\n\n[^%s]: n %s" % ((s(),) * 2 + (s(),)), "t[^k]\n\n[^k]: %s" % s(),
             "use AB %s\n\n*[AB]: %s" % (s(), s()), "x %s y\n\n*[%s]: t" % ((s(),) * 2), "%s\n: d %s" % (s(), s()), "| %s | b |\n|---|---|\n| c | %s |" % (s(), s()),
             "- [ ] %s\n- [x] %s" % (s(), s()), "see https://e.x/%s end" % s(), "[%s](/u)" % s(), "[t](/u%s)" % s(), "[t](/u \"%s\")" % s().replace('"', ""),
             "![%s](/i.png)" % s(), "```%s\ncode %s\n```" % (s(), s()), "# h %s" % s(), "> q %s" % s(), "*e %s*" % s(), "`c %s`" % s(), ">! %s\n>! m" % s(),
             "[t][%s]\n\n[%s]: /u" % ((s().replace("]", ""),) * 2), "<%s@e.x>" % s(), "term %s\n: %s" % (s(), s())]
    return "\n\n".join(r.sample(forms, r.randint(1, 4))) + "\n"


def showcase(r, k=None):
    """a small document in which one plugin's constructs are actually used together (definition + reference etc.)"""
    w = lambda: words(r, 1, 3)  # noqa
    end = lambda: r.choice(["", " *em*", " `code`", " http", " src/", " [l](/u)", " <b>", " **s**", " p", " x>"])  # noqa
    k = k or r.choice(["footnotes", "footnotes", "abbr", "table", "def_list", "task_lists", "math", "spoiler", "ruby", "formatting", "url", "refs", "specials", "specials"])
    if k == "specials":
        return special_slots(r)
    if k == "abbr" and r.random() < 0.7:
        return abbr_showcase(r)
    if k == "footnotes":
        keys = r.sample(["1", "n", "Note", "k2"], r.randint(1, 3))
        body = " ".join("%s[^%s]" % (w(), r.choice(keys + ["zz"])) for _ in range(r.randint(1, 4)))
        defs = "".join("[^%s]: %s%s\n%s" % (kk, w(), end(), r.choice(["", "   cont %s%s\n" % (w(), end()), "\n   para two%s\n" % end()])) if r.random() < 0.85
                       else "[^%s]:%s\n" % (kk, r.choice([" ", "", "  \n   ", " \\"]))            # a note without text
                       for kk in keys)
        return body + "\n\n" + defs
    if k == "abbr":
        return "The HTML and W3C %s HTML\n\n*[HTML]: Hyper %s\n*[W3C]: World \"Wide\" <Web>\n" % (w(), w())
    if k == "table":
        cols = r.randint(1, 3)
        row = lambda: "| " + " | ".join(inline(r, 1, ("table",)) for _ in range(cols)) + " |"  # noqa
        body = "".join(row() + "\n" for _ in range(r.randint(0, 3)))
        if r.random() < 0.4:
            # degenerate body rows: empty, one cell too many or too few, a line boundary other than the newline inside a cell
            body += "".join(r.choice(["||\n", "| |\n", "|\n", "|||\n", "| a |\n", "| a | b | c | d |\n", "| x\u2028y | z |\n", "| x\x0cy |\n", "|\t|\n", "| \\| |\n", "|a|\x85|\n"])
                            for _ in range(r.randint(1, 3)))
        return row() + "\n|" + "|".join(r.choice(["---", ":--", "--:", ":-:"]) for _ in range(cols)) + "|\n" + body
    if k == "def_list":
        return "%s\n%s\n: %s%s\n: %s\n\n  more %s\n" % (w(), w(), w(), end(), w(), w())
    if k == "task_lists":
        return "- [ ] %s%s\n- [x] %s\n  - [X] nested\n\n- [ ] loose\n\n  para\n" % (w(), end(), w())
    if k == "math":
        return "$%s$ and $$\n%s\n$$\n\n$$\na<b&c\n$$\n" % (r.choice(["a+b", "x<y", "a&b"]), w())
    if k == "spoiler":
        return ">! %s%s\n>! more\n\ntext >!inline %s!< end\n" % (w(), end(), w())
    if k == "ruby":
        return "[漢字(かんじ)] and [漢(かん)字(じ)](/url) and [k(r)][ref]\n\n[ref]: /u\n"
    if k == "formatting":
        return "~~%s~~ ==%s== ^^%s^^ x^2^ H~2~O %s\n" % (w(), w(), w(), end())
    if k == "url":
        return "see https://example.com/a?b=c&d=e. and <https://x.y> %s http://q.r/s)\n" % w()
    return "[a][r1] and [R1] and [b][nope] ![i][r1]\n\n[r1]: /u%s \"T\"\n" % r.choice(["", "?a=b&c", "%20x"])


INCLUDE_TARGETS = ["chain_f_000.md", "chain_r_000.md", "chain_m_000.md", "data.txt", "part.md", "frag.html", "latin1.txt", "empty.txt", "bom.md", "utf16.txt", "sub/inner.md", "missing.txt", "main.md", "", ".", "sub",
                   "deep.md", "deep.md", "crlf.md", "cr.md", "cyc_a.md", "cyc_b.md",
                   "./data.txt", "sub/../data.txt", "data.txt  ", "<x9>.txt"]
INCLUDE_ENCODINGS = ["utf-8", "utf-8", "latin-1", "ascii", "utf-16", "utf-8-sig", "nope", "", "<x9 y9=1>", "\"onx9=1", "idna", "hex", "unicode_escape"]


def include_doc(r, style=None, payload=""):
    """documents for conversions with a file context: include directives (fenced or RST style) with every kind of target and encoding"""
    style = style or r.choice(["fenced", "rst"])
    out = []
    for _ in range(r.randint(1, 3)):
        tgt = r.choice(INCLUDE_TARGETS) + (payload if r.random() < 0.2 else "")
        opts = []
        if r.random() < 0.6:
            opts.append(("encoding", r.choice(INCLUDE_ENCODINGS) + (payload if r.random() < 0.3 else "")))
        if r.random() < 0.4:
            # option names of every kind: unknown ones, repeated ones, names that other parts of the library use for themselves
            opts.append((r.choice(["class", "x", "encoding", "text", "renderer", "filepath", "raw", "type", "self", "children", "attrs", "name", "title"]), payload or "v"))
        if style == "fenced":
            block = "```{include} %s\n%s```\n" % (tgt, "".join(":%s: %s\n" % o for o in opts))
        else:
            block = ".. include:: %s\n%s" % (tgt, "".join("   :%s: %s\n" % o for o in opts))
        if r.random() < 0.3:
            # inside containers (quotes; a list item for the fenced style): what is included nests below them
            pre = "> " * r.randint(1, 6)
            block = "".join(pre + l + "\n" for l in block.split("\n")[:-1])
        out.append(block)
        if r.random() < 0.4:
            out.append(words(r) + "\n")
    return "\n".join(out)


# white space that str.strip()/str.split()/\s know but the block parser does not treat as blank, and the zero-width characters
EDGE_WS = ["\u00a0", "\u2003", "\u3000", "\u2028", "\u2029", "\x0b", "\x0c", "\x1c", "\x1f", "\x85", "\u1680", "\u200b", "\ufeff"]
MARKERS = ["-", "*", "+", "1.", "7)", ">", "- [ ]", "- [x]", "term\n:", "[^n]:", "#", "##"]
DEGENERATE_DEFS = ["*[%s]: x", "[%s]: /u", "[^%s]: note", "*[%s]:", "[%s]: <> 't'"]
DEGENERATE_KEYS = [" ", "\t", "\u3000", "", "  ", "\u00a0", "a.c", "a|b", "(", "a*", "\\", "[", "^", " HTML ", "x y", "\x0b", "World Wide Web", "AB_C", "AB", "a b c", "x  y", "HT\nML"]


def edge_doc(r, plugins=()):
    """blocks whose text begins or ends with white space of the wider kind (after a marker, on the line after a marker, at the
    end of a line, as a whole line) and definitions (reference, footnote, abbreviation) whose key is degenerate: white space only,
    empty, or made of regex metacharacters -- followed by text that uses them"""
    out = []
    for _ in range(r.randint(1, 4)):
        w, m, t = r.choice(EDGE_WS), r.choice(MARKERS), words(r, 1, 3)
        k = r.randrange(8)
        if k == 0:
            out.append("%s\n%s%s%s\n" % (m, " " * (len(m.split("\n")[-1]) + 1), w, t))          # text starts on the line after the marker
        elif k == 1:
            out.append("%s %s%s\n" % (m, w, t))
        elif k == 2:
            out.append("%s %s%s\n%s\n" % (m, t, w, r.choice(["", t, w])))
        elif k == 3:
            out.append("%s\n%s\n%s\n" % (t, w * r.randint(1, 3), words(r)))                       # a line of wide white space only
        elif k == 4:
            out.append("%s %s\n%s\n\n%s%s\n" % (m, t, w, " " * r.choice([0, 2, 4]), words(r)))
        elif k == 5:
            key = r.choice(DEGENERATE_KEYS)
            d = r.choice(DEGENERATE_DEFS) % key
            use = key.strip() or "HTML"
            if " " in use and r.random() < 0.7:
                use = use.replace(" ", r.choice(["\n", "  \n", " \n ", "\\\n"]), 1)      # the use is wrapped at one of its spaces
            out.append("%s\n\n%s [%s] [^%s] %s %s\n" % (d, t, key, key, use, t))
        elif k == 6:
            key = r.choice(DEGENERATE_KEYS)
            out.append("%s %s [x][%s] [%s][] ![%s]\n\n%s\n" % (t, key, key, key, key, r.choice(DEGENERATE_DEFS) % key))
        else:
            out.append("%s%s%s\n" % (w, r.choice(["# h", "- a", "> q", "    code", "```\nc\n```", "| a |\n|---|", "<div>", "[r]: /u"]), w))
    return "\n".join(out)


WRAP_OPEN_CLOSE = [("`a", "b`"), ("``a `", "b``"), ('<b class="x', 'y">z</b>'), ("<i\n", "id=k>w</i>"), ("[text", "more](/u)"), ("[t](/u 'ti", "tle')"), ("*em", "ph*"),
                   ("**str", "ong**"), ("<!-- c", "d -->"), ("![al", "t](/i.png)"), ("<http://e.x/a", "b>"), ("~~de", "l~~"), ("$a", "b$"), ("_u", "v_"),
                   # plain words on both sides of the line break: Latin, East Asian wide, full-width, mixed
                   ("plain", "words"), ("\u6f22\u5b57\u3068", "\u4eee\u540d\u3092"), ("\uff57\uff49", "\uff44\uff45"), ("\u66f8\u304f\u3002", "\u6b21"), ("wide\u5b57", "Latin"), ("x", "\u5b57")]


def wrapped_doc(r):
    """paragraphs (top level, in quotes, in list items) of several lines whose continuation lines are indented by 0-5 spaces or
    by tabs, with inline constructs that straddle the line break: code spans, inline HTML, links and titles, emphasis"""
    out = []
    for _ in range(r.randint(1, 3)):
        pre = r.choice(["", "", "", "> ", "- ", "1. "])
        cont = {"": "", "> ": r.choice(["> ", "", ">"]), "- ": r.choice(["  ", ""]), "1. ": r.choice(["   ", ""])}[pre]
        lines = [pre + words(r, 1, 3)]
        for _ in range(r.randint(1, 3)):
            o, c = r.choice(WRAP_OPEN_CLOSE)
            ind = r.choice(["", " ", "  ", "   ", "    ", "     ", "\t", " \t", "  "])
            lines[-1] += " " + o + r.choice(["", " ", "  ", "\\"])
            lines.append(cont + ind + c + " " + words(r, 1, 2))
        out.append("\n".join(lines) + "\n")
    return "\n".join(out)


DIRECTIVE_TYPES = ["note", "tip", "warning", "attention", "caution", "danger", "error", "hint", "important", "image", "figure", "toc", "include", "unknown", "Note", "admonition"]
OPTION_NAMES = ["class", "name", "alt", "width", "height", "align", "target", "figclass", "figwidth", "min-level", "max-level", "collapse", "encoding", "title", "text", "renderer",
                "type", "id", "style", "x", "CLASS", "raw", "children", "attrs"]
OPTION_VALUES = ["", "c1", "c1 c2", "left", "center", "right", "LEFT", "100", "050", "100px", "50%", "10\u00b2", "\uff11\uff10\uff10", "\u0661\u0660", "\u2460", "1e3", "-1", "0", "1", "2", "3", "6", "7", "1.5",
                 "9" * 40, "utf-8", "a.png", "/t", "javascript:x", "two words", "x\"y", "<b>", "&amp;", "tip", "note", " ", "\u3000", "\x0b"]


KNOWN_OPTIONS = {"image": ["alt", "width", "height", "align", "target"], "figure": ["alt", "width", "height", "align", "target", "figclass", "figwidth"],
                 "toc": ["min-level", "max-level", "collapse"], "include": ["encoding"]}
NUMERIC_OPTIONS = ("width", "height", "figwidth", "min-level", "max-level")
NUMERIC_VALUES = ["100", "050", "100px", "50%", "10\u00b2", "\uff11\uff10\uff10", "\u0661\u0660", "\u2460", "\u00b2", "1e3", "-1", "0", "1", "2", "3", "6", "7", "1.5", "9" * 40, "", "1\u2082", "12\u00bd", "4\u2074px",
                  # a number followed by something else (the validation looks at the beginning only)
                  '1"><b>', '100px"><li>x', "50%' x='", "1<b>", "2&amp;", '3"', "7 8", "1;color:red"]
MARKUP_NUMBERS = NUMERIC_VALUES[-8:] + ['left"><b>', 'c1"><i>x', "a.png' x='"]


def directive_doc(r, style=None, values=None):
    """one to three directives of any type (admonitions, image, figure, toc, include, unknown) in the fenced, colon-fenced or RST
    style, each with a random title, 0-4 options of any name (known to that directive, known to another one, unknown, names the
    library uses itself) in any order with values of every kind (valid, empty, wrong type, digits of other scripts, very long,
    markup), and a body of random blocks"""
    style = style or r.choice(["fenced", "colon", "rst"])
    out = []
    for _ in range(r.randint(1, 3)):
        ty = r.choice(DIRECTIVE_TYPES + ["image", "figure", "image", "toc"])
        title = r.choice(["", "", "T", "Title *x*", "a.png", "/i/p.png", words(r, 1, 3)])
        opts = []
        for _ in range(r.choice([0, 1, 1, 2, 3, 4])):
            # mostly an option the directive knows, mostly with a value of the kind it expects (in every spelling of that kind)
            name = r.choice(KNOWN_OPTIONS.get(ty, ["class", "name"])) if r.random() < 0.7 else r.choice(OPTION_NAMES)
            pool = values or (NUMERIC_VALUES if (name in NUMERIC_OPTIONS and r.random() < 0.7) else OPTION_VALUES)
            opts.append((name, r.choice(pool)))
        body = r.choice(["", "", words(r) + "\n", "body *text*\n\nsecond\n", "- item\n- two\n", "> q\n", "caption\n\nlegend\n"])
        if style == "rst":
            d = ".. %s::%s\n" % (ty, (" " + title) if title else "") + "".join("   :%s:%s\n" % (k, (" " + v) if v else "") for k, v in opts)
            if body:
                d += "\n" + "".join(("   " + l + "\n") if l else "\n" for l in body.split("\n")[:-1])
        else:
            f = {"fenced": r.choice(["```", "~~~", "````"]), "colon": r.choice([":::", "::::"])}[style]
            d = "%s{%s}%s\n" % (f, ty, (" " + title) if title else "") + "".join(":%s:%s\n" % (k, (" " + v) if v else "") for k, v in opts)
            d += ("\n" + body if (body and opts) else body) + f + "\n"
        out.append(d)
        if r.random() < 0.4:
            out.append(r.choice(["# h\n", words(r) + "\n", "## sub *e*\n"]))
    return "\n".join(out)


def long_run_doc(r):
    """one construct whose repeatable part is repeated 9 / 17 / 33 / 65 / 129 times (just beyond small powers of two): lines of a
    paragraph, term lines above a definition, definitions below a term, rows and columns of a table, items of a list, lines of a
    quote, continuation lines of a footnote, reference definitions and their uses, headings, cells ..."""
    k = r.choice([9, 17, 33, 65, 129])
    w = lambda: words(r, 1, 3)  # noqa
    kind = r.randrange(14)
    if kind == 0:
        return "".join(w() + "\n" for _ in range(k)) + ": " + w() + "\n"                       # k term lines, one definition
    if kind == 1:
        return w() + "\n" + "".join(": " + w() + "\n" for _ in range(k))                       # one term, k definitions
    if kind == 2:
        return "".join(w() + "\n" for _ in range(k)) + r.choice(["", "===\n", "a | b\n-|-\n1|2\n", "- x\n", "> q\n", "[^n]: x\n", "*[AB]: y\n"])  # a long paragraph, then a block
    if kind == 3:
        return "| a | b |\n|---|---|\n" + "".join("| %s | %s |\n" % (w(), w()) for _ in range(k))
    if kind == 4:
        c = min(k, 33)
        return "|" + "|".join(" h%d " % i for i in range(c)) + "|\n|" + "|".join("---" for _ in range(c)) + "|\n|" + "|".join(" c " for _ in range(c)) + "|\n"
    if kind == 5:
        m = r.choice(["- ", "1. ", "* ", "- [ ] "])
        return "".join(m + w() + "\n" + ("" if r.random() < 0.7 else "\n") for _ in range(k))
    if kind == 6:
        return "".join("> " + w() + "\n" for _ in range(k)) + r.choice(["", "lazy " + w() + "\n"])
    if kind == 7:
        return "x[^n]\n\n[^n]: " + w() + "\n" + "".join("    " + w() + "\n" for _ in range(k))
    if kind == 8:
        return "".join("[r%d]: /u%d\n" % (i, i) for i in range(k)) + "\n" + " ".join("[r%d]" % i for i in range(k)) + "\n"
    if kind == 9:
        return "".join("#" * (1 + i % 6) + " h%d\n\n" % i for i in range(k))
    if kind == 10:
        return " ".join(r.choice(["*e*", "`c`", "[l](/u)", "~~s~~", "==m==", "x^2^", "<b>", "&amp;", "https://e.x/a", "[^n]", "AB"]) for _ in range(k)) + "\n\n[^n]: z\n*[AB]: t\n"
    if kind == 11:
        return "```\n" + "".join(w() + "\n" for _ in range(k)) + "```\n"
    if kind == 12:
        return "".join("*[K%d]: t%d\n" % (i, i) for i in range(k)) + "\n" + " ".join("K%d" % i for i in range(k)) + "\n"
    return "".join(":" * 3 + "{note} T%d\n" % i + w() + "\n" + ":" * 3 + "\n\n" for i in range(min(k, 33)))


TAB_WS = ["\t", "\t\t", " \t", "  \t", "\t ", " \t\t", "   \t", "    ", "\t    ", " ", "  \t\t"]


def tab_doc(r, markers=None):
    """container markers followed by tabs and by mixed tab/space indentation: quotes, bullets and ordered items whose content
    begins after one or two tabs (text, or indented code once the marker's column is used up), continuation lines, lazy lines
    and lines after a blank line indented with tabs, fenced and indented code that holds tabs"""
    out = []
    for _ in range(r.randint(1, 4)):
        m = r.choice(markers or [">", "-", "1.", "> -", "- >", ">>", "*", "+", "2)", "> 1."])
        w, w2 = r.choice(TAB_WS), r.choice(TAB_WS)
        t, u = words(r, 1, 3), words(r, 1, 3)
        q = ">" if m.startswith(">") else ""
        k = r.randrange(9)
        if k == 0:
            out.append("%s%s%s\n" % (m, w, t))
        elif k == 1:
            out.append("%s%s%s\n%s%s%s\n" % (m, w, t, m, w2, u))
        elif k == 2:
            out.append("%s %s\n%s\n%s%s%s\n" % (m, t, q, q, w, u))              # after a blank (quoted) line: a tab-indented line
        elif k == 3:
            out.append("%s %s\n\n%s%s\n" % (m, t, w, u))
        elif k == 4:
            out.append("%s%s\n" % (w, t))                                        # top level: indented code or text
        elif k == 5:
            out.append("%s\n%s%s\n" % (t, w, u))                                 # a lazy line that begins with tabs
        elif k == 6:
            out.append("%s ```\n%s%s%s\tx\n%s ```\n" % (m, q or "  ", w, t, q or "  "))  # fenced code with tabs inside a container
        elif k == 7:
            out.append("%s%s%s\n%s%s%s\n" % (m, w, t, q, w2, u))                  # second line without the item marker
        else:
            out.append("%s%s\n%s%s%s\n" % (m, r.choice(["", " ", "\t"]), q, w, t))  # empty first line of the container
    return "\n".join(out)


def toc_doc(r, style="fenced"):
    """headings with any sequence of levels (ATX and setext, also inside a quote or a list, which are not eligible) and a toc
    directive before, between or after them, with or without a level range"""
    n = r.randint(1, 7)
    parts = []
    for i in range(n):
        lv = r.randint(1, 6)
        t = words(r, 1, 2) + r.choice(["", "", " *em*", " `c`", " <b>", " [l](/u)", " &amp;", " [ref]", " [Ref][]", " [x][ref]", " [ref] tail"])
        k = r.random()
        if k < 0.6:
            parts.append("#" * lv + " " + t + "\n")
        elif k < 0.85:
            lv = r.choice([1, 2])
            if r.random() < 0.5:
                t = t + r.choice(["\n", "  \n", "\\\n"]) + words(r, 1, 3)      # a heading text that spans two source lines
            parts.append(t + "\n" + ("=" if lv == 1 else "-") * 3 + "\n")
        elif k < 0.93:
            parts.append("> " + "#" * lv + " " + t + "\n")
        else:
            parts.append("- " + "#" * lv + " " + t + "\n")
    lo, hi = sorted([r.randint(1, 6), r.randint(1, 6)])
    opts = r.choice([[], [], [("max-level", hi)], [("min-level", lo), ("max-level", hi)], [("min-level", lo)]])
    title = r.choice(["", "", " Contents", " T *x*"])
    if style == "fenced":
        d = "```{toc}%s\n%s```\n" % (title, "".join(":%s: %s\n" % o for o in opts))
    else:
        d = ".. toc::%s\n%s" % (title, "".join("   :%s: %s\n" % o for o in opts))
    parts.insert(r.randint(0, len(parts)), d)
    # the label that some headings use is defined in some documents only (what a heading shows depends on this document's definitions)
    parts.append(r.choice(["", "", "[ref]: /target\n", "[REF]: /t2 'T'\n"]))
    return "\n".join(parts)
