(* Generic driver for the extracted model: one request per input line, one reply per
   output line.  Wire format (whitespace-separated tokens):
     #<int>  integer      [ c1 c2 ... ]  string (code points)    ( v ... )  list
     N  None              T / F  booleans                                         *)
module M = Model

let rec pos_of_int n = if n = 1 then M.XH else if n land 1 = 0 then M.XO (pos_of_int (n lsr 1)) else M.XI (pos_of_int (n lsr 1))
let z_of_int n = if n = 0 then M.Z0 else if n > 0 then M.Zpos (pos_of_int n) else M.Zneg (pos_of_int (-n))
let rec int_of_pos = function M.XH -> 1 | M.XO p -> 2 * int_of_pos p | M.XI p -> 2 * int_of_pos p + 1
let int_of_z = function M.Z0 -> 0 | M.Zpos p -> int_of_pos p | M.Zneg p -> - (int_of_pos p)

let tokenize (line : string) : string list =
  List.filter (fun s -> s <> "") (String.split_on_char ' ' line)

let rec parse_val (toks : string list) : M.pval * string list =
  match toks with
  | [] -> failwith "eof"
  | "N" :: r -> (M.VNone, r)
  | "T" :: r -> (M.VBool true, r)
  | "F" :: r -> (M.VBool false, r)
  | "[" :: r ->
    let rec go acc = function
      | "]" :: r -> (M.VStr (List.rev acc), r)
      | t :: r -> go (z_of_int (int_of_string t) :: acc) r
      | [] -> failwith "eof in str" in
    go [] r
  | "(" :: r ->
    let rec go acc toks = match toks with
      | ")" :: r -> (M.VList (List.rev acc), r)
      | [] -> failwith "eof in list"
      | _ -> let (v, r) = parse_val toks in go (v :: acc) r in
    go [] r
  | t :: r when String.length t > 1 && t.[0] = '#' ->
    (M.VInt (z_of_int (int_of_string (String.sub t 1 (String.length t - 1)))), r)
  | t :: _ -> failwith ("bad token " ^ t)

let rec print_val buf = function
  | M.VNone -> Buffer.add_string buf "N"
  | M.VBool true -> Buffer.add_string buf "T"
  | M.VBool false -> Buffer.add_string buf "F"
  | M.VInt z -> Buffer.add_char buf '#'; Buffer.add_string buf (string_of_int (int_of_z z))
  | M.VStr s -> Buffer.add_string buf "[";
    List.iter (fun c -> Buffer.add_char buf ' '; Buffer.add_string buf (string_of_int (int_of_z c))) s;
    Buffer.add_string buf " ]"
  | M.VList l -> Buffer.add_string buf "(";
    List.iter (fun v -> Buffer.add_char buf ' '; print_val buf v) l;
    Buffer.add_string buf " )"

let () =
  try
    while true do
      let line = input_line stdin in
      let buf = Buffer.create 256 in
      (try
        let (v, _) = parse_val (tokenize line) in
        print_val buf (M.run v)
      with
      | Stack_overflow -> Buffer.clear buf; Buffer.add_string buf "( [ 101 114 114 111 114 ] [ 115 116 97 99 107 ] )"
      | Failure m -> Buffer.clear buf; Buffer.add_string buf ("( [ 101 114 114 111 114 ] [ 112 97 114 115 101 ] ) ; " ^ m));
      print_string (Buffer.contents buf); print_newline ()
    done
  with End_of_file -> ()
